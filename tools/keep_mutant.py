#!/venv/bin/python
"""Confirm a sub-agent's mutant in a fresh scratch worktree of /repo (HEAD) and keep it under /verif/seeded/<name>/.

    tools/keep_mutant.py <name> <property> <agent worktree> "<what it needs to manifest>" [extra check ids...]

Confirms: patch applies on HEAD (3-way), existing test-suite passes with it, demo exits non-zero with the patch and
0 without. Writes patch.diff (re-based on HEAD), demo.py, meta.json.
"""
import json, os, shutil, subprocess, sys, tempfile
HERE = os.path.dirname(os.path.dirname(os.path.abspath(__file__)))
name, prop, src, needs = sys.argv[1:5]
checks = [prop] + sys.argv[5:]
d = tempfile.mkdtemp(prefix="keep-", dir="/tmp"); repo = os.path.join(d, "repo")
subprocess.run(["git", "-C", "/repo", "worktree", "add", "-q", "--detach", repo, "HEAD"], check=True)
ran = []
try:
    env = dict(os.environ, PYTHONPATH=repo, PYTHONDONTWRITEBYTECODE="1")
    # script dir must not hold a cobyqa; demos that assert where cobyqa was imported from are re-pointed
    txt = open(os.path.join(src, "demo.py")).read().replace(src.rstrip("/"), repo)
    open(os.path.join(d, "demo.py"), "w").write(txt)

    def demo():
        p = subprocess.run(["/venv/bin/python", os.path.join(d, "demo.py")], cwd=d, env=env, capture_output=True, text=True, timeout=1800)
        return p.returncode, (p.stdout + p.stderr).strip().splitlines()[-3:]
    rc0, out0 = demo(); ran.append("demo without patch: exit %d" % rc0)
    p = subprocess.run(["git", "-C", repo, "apply", "--3way", os.path.join(src, "patch.diff")], capture_output=True, text=True)
    if p.returncode != 0:
        print("patch does not apply:", p.stderr[:400]); sys.exit(1)
    subprocess.run(["git", "-C", repo, "reset", "-q"])  # unstage what --3way staged
    diff = subprocess.run(["git", "-C", repo, "diff", "--", "cobyqa"], capture_output=True, text=True).stdout
    t = subprocess.run(["/venv/bin/python", "-m", "pytest", "-q", "-p", "no:cacheprovider", "--timeout=900", "cobyqa"], cwd=repo, env=env, capture_output=True, text=True)
    tests = t.stdout.strip().splitlines()[-1]; ran.append("pytest with patch: " + tests)
    rc1, out1 = demo(); ran.append("demo with patch: exit %d (%s)" % (rc1, " | ".join(out1)[:300]))
    ok = rc0 == 0 and rc1 != 0 and " failed" not in tests and "passed" in tests
    print("\n".join(ran)); print("CONFIRMED" if ok else "NOT CONFIRMED")
    if ok:
        sd = os.path.join(HERE, "seeded", name); os.makedirs(sd, exist_ok=True)
        open(os.path.join(sd, "patch.diff"), "w").write(diff)
        shutil.copy(os.path.join(src, "demo.py"), os.path.join(sd, "demo.py"))
        head = subprocess.run(["git", "-C", "/repo", "rev-parse", "--short", "HEAD"], capture_output=True, text=True).stdout.strip()
        json.dump({"property": prop, "checks": checks, "needs": needs, "base_commit": head, "origin": "independent sub-agent given only the property text", "confirmed": ran}, open(os.path.join(sd, "meta.json"), "w"), indent=1)
finally:
    subprocess.run(["git", "-C", "/repo", "worktree", "remove", "--force", repo]); shutil.rmtree(d, ignore_errors=True)
