#!/venv/bin/python
"""Sensitivity audit (tooling, not a registered check).

    tools/audit.py <patch.diff> <ID> [<ID> ...]      run the quick checks of the given properties against a
                                                     scratch copy of /repo with the patch applied
    tools/audit.py --seeded [name ...]               the same for every /verif/seeded/<name>/ (meta.json tells
                                                     which properties)
    tools/audit.py --revert <commit> <ID> ...        against /repo with one fix: commit reverted

Evidence and replay files of audit runs go to a scratch directory (VERIF_OUT), never to /verif/evidence.
Prints one line per (patch, property): DETECTED (exit 1) / MISSED (exit 0) / ERROR (exit 2).
"""
import json, os, shutil, subprocess, sys, tempfile, time
HERE = os.path.dirname(os.path.dirname(os.path.abspath(__file__)))


def scratch_copy():
    d = tempfile.mkdtemp(prefix="audit-", dir="/tmp")
    subprocess.run(["git", "-C", "/repo", "worktree", "add", "-q", "--detach", os.path.join(d, "repo"), "HEAD"], check=True)
    return d, os.path.join(d, "repo")


def cleanup(d, repo):
    subprocess.run(["git", "-C", "/repo", "worktree", "remove", "--force", repo])
    shutil.rmtree(d, ignore_errors=True)


def run_checks(repo, d, ids, tier="quick", seed="1"):
    res = {}
    for pid in ids:
        env = dict(os.environ, VERIF_REPO=repo, VERIF_OUT=os.path.join(d, "out"), VERIF_SEED=seed)
        if os.environ.get("AUDIT_FULL") is None:
            env["VERIF_AUDIT_FAST"] = "1"
        t0 = time.time()
        p = subprocess.run([os.path.join(HERE, "check"), pid, tier], env=env, capture_output=True, text=True)
        viol = [l for l in p.stdout.splitlines() if l.startswith("VIOLATION") or l.startswith("  violation")]
        res[pid] = {"rc": p.returncode, "wall_s": round(time.time() - t0, 1), "lines": viol[:6],
                    "tail": p.stdout.splitlines()[-3:] if p.returncode == 2 else []}
    return res


def verdict(rc):
    return {0: "MISSED", 1: "DETECTED", 2: "ERROR"}.get(rc, "rc=%d" % rc)


def main(argv):
    out = {}
    if argv[0] == "--seeded":
        names = argv[1:] or sorted(os.listdir(os.path.join(HERE, "seeded")))
        for name in names:
            sd = os.path.join(HERE, "seeded", name)
            meta = json.load(open(os.path.join(sd, "meta.json")))
            d, repo = scratch_copy()
            try:
                p = subprocess.run(["git", "-C", repo, "apply", "--3way", os.path.join(sd, "patch.diff")], capture_output=True, text=True)
                if p.returncode != 0:
                    print("%s: patch does not apply: %s" % (name, p.stderr.strip()[:200]))
                    continue
                res = run_checks(repo, d, meta.get("checks") or [meta["property"]])
                out[name] = res
                for pid, r in res.items():
                    print("%-12s %s %-8s %5.1fs %s" % (name, pid, verdict(r["rc"]), r["wall_s"], (r["lines"] or r["tail"] or [""])[0][:150]))
            finally:
                cleanup(d, repo)
    elif argv[0] == "--revert":
        commit, ids = argv[1], argv[2:]
        d, repo = scratch_copy()
        try:
            p = subprocess.run(["git", "-C", repo, "revert", "--no-commit", commit], capture_output=True, text=True)
            if p.returncode != 0:
                print("cannot revert %s: %s" % (commit, p.stderr[:300])); return 2
            res = run_checks(repo, d, ids)
            out["revert-" + commit] = res
            for pid, r in res.items():
                print("revert %s %s %-8s %5.1fs %s" % (commit, pid, verdict(r["rc"]), r["wall_s"], (r["lines"] or r["tail"] or [""])[0][:150]))
        finally:
            cleanup(d, repo)
    else:
        patch, ids = argv[0], argv[1:]
        d, repo = scratch_copy()
        try:
            p = subprocess.run(["git", "-C", repo, "apply", "--3way", os.path.abspath(patch)], capture_output=True, text=True)
            if p.returncode != 0:
                print("patch does not apply: %s" % p.stderr[:300]); return 2
            res = run_checks(repo, d, ids)
            out[os.path.basename(patch)] = res
            for pid, r in res.items():
                print("%s %s %-8s %5.1fs %s" % (os.path.basename(patch), pid, verdict(r["rc"]), r["wall_s"], (r["lines"] or r["tail"] or [""])[0][:150]))
        finally:
            cleanup(d, repo)
    return 0


if __name__ == "__main__":
    sys.exit(main(sys.argv[1:]))
