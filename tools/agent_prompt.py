#!/venv/bin/python
"""Print the brief given to a mutation sub-agent: only the property text and its worktree."""
import json, sys, os
HERE = os.path.dirname(os.path.dirname(os.path.abspath(__file__)))
pid, wt, flavour = sys.argv[1], sys.argv[2], sys.argv[3] if len(sys.argv) > 3 else ""
p = [json.loads(l) for l in open(os.path.join(HERE, "properties.jsonl")) if json.loads(l)["id"] == pid][0]
print(f"""You are helping to evaluate a test-suite for the Python package `cobyqa` (a derivative-free trust-region SQP optimizer, pure Python, `cobyqa.minimize`). You work ONLY inside your own scratch git worktree of the package at {wt} (never touch /repo or /verif, do not read anything under /verif). Python with the dependencies is /venv/bin/python; run things with `cd {wt} && PYTHONPATH={wt} /venv/bin/python ...` so that your worktree's copy of cobyqa is imported (check `cobyqa.__file__`).

Here is a semantic property that the package is supposed to satisfy:

  Title: {p['title']}
  Statement: {p['statement']}
  Quantified over: {p['quantifier']['text']}

Your task: write ONE small, realistic change (a plausible regression or refactoring slip a maintainer could make - not sabotage, no dead-obvious breakage) to the source under {wt}/cobyqa (not the tests) that BREAKS this property while
  (1) the package still imports and runs, and
  (2) the existing test-suite still passes exactly as before: `cd {wt} && PYTHONPATH={wt} /venv/bin/python -m pytest -q -p no:cacheprovider --timeout=900 cobyqa` must report 62 passed.
The change must need something SPECIFIC to manifest - {flavour or "a particular multi-step sequence, an unusual but valid input, a particular option combination, or two cooperating sites that each look fine alone"} - and must NOT be exposed at once by ordinary use (e.g. the README/docstring examples must still give their documented answers).

Deliver, inside {wt}:
  - `patch.diff`: the change as `git diff` output (run `git -C {wt} diff -- cobyqa > {wt}/patch.diff`), leaving the change applied in the worktree;
  - `demo.py`: a small self-contained program using only the public behaviour described in the property (it may wrap user functions to log calls, monkeypatch nothing unless the property itself is about an internal component) that exits 0 on the unchanged code and exits 1 (printing what went wrong) with your change. Verify both: with the change applied, and with it reverted by `git -C {wt} apply -R {wt}/patch.diff` (then `git -C {wt} apply {wt}/patch.diff` to restore the change). NEVER use `git stash` (the stash is shared with other worktrees).
  - In your final answer: a 5-10 line description: which file/function you changed, why it breaks the property, what exactly is needed for it to manifest, and the commands you ran with their results (tests: N passed; demo exit codes with and without the change).
Keep the diff under ~15 changed lines. Do not weaken or delete existing behaviour wholesale; do not special-case a magic input value. Do not create files outside {wt}.""")
