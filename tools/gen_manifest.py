#!/venv/bin/python
"""Regenerate /verif/MANIFEST.json from the table below (kept in one place so that it stays valid)."""
import json, os, sys
HERE = os.path.dirname(os.path.dirname(os.path.abspath(__file__)))
props = [json.loads(l) for l in open(os.path.join(HERE, "properties.jsonl"))]

E2E_NOTE = "Trusts the user-space spies and the harness-side taps (monkeypatches that only read); a green run means no violation among the generated cases with the class distribution given in the evidence file, not absence."
CHECKS = {
 "C01": dict(tech="property-based testing (Hypothesis): generated minimize calls, spies on every user-visible point + tap on Problem.__call__, exact box oracle",
             text="Exploration: thousands of generated problems (all bound patterns incl. decimal, non-representable bounds, x0 patterns, scale, faults, constraints, a family prone to second-order-correction steps); every point seen by fun/constraints/callback and res.x is compared exactly with the box, and the solver-space trial point is checked before projection at every evaluation (init/tr/soc/geo).",
             note=E2E_NOTE, ref="4/C01"),
 "C02": dict(tech="property-based testing (Hypothesis): generated minimize calls, differential oracle = harness recomputation of the true violation from the user's statement and the logged raw values",
             text="Exploration: generated problems stratified over scale x fixed x constraint kinds x limit patterns x bounds form x NC/dict; res.x must be an evaluated point, res.fun the raw logged value (bitwise), res.maxcv the harness-side violation within a rounding tolerance.",
             note=E2E_NOTE + " Tolerance 256*eps*magnitudes.", ref="4/C02"),
 "C03": dict(tech="stateful property-based testing (Hypothesis rule-based machine) against a reference model of the filter, plus end-to-end differential check against the run's own history",
             text="Exploration: a rule-based machine feeds a real Problem scripted (objective, violation) pairs with ties, NaN, +-inf, values at feasibility_tol, any filter_size, and compares best_eval(penalty) after every feed with a reference selection; end-to-end runs with store_history compare the returned pair with the reference selection over the history under the final penalty.",
             note="Reference rule and retained-set model in vf/props/c03.py are the trusted base; values, not identities of x, are compared; when no fully defined pair exists the oracle is permissive (documented fallbacks).", ref="4/C03"),
 "C05": dict(tech="property-based testing (Hypothesis): generated minimize calls, call counters in spies/taps vs nfev, nit, histories",
             text="Exploration: generated problems incl. fun=None, maxfev around nb_points, small maxiter, history_size; counts of evaluations (tap) and objective calls (spy) are compared with maxfev and nfev, nit with maxiter, histories bitwise/with tolerance against the logged values.",
             note=E2E_NOTE, ref="4/C05"),
 "C06": dict(tech="property-based testing (Hypothesis): call-discipline walk over spy logs + metamorphic replay on look-up tables",
             text="Exploration: for every generated run each constraint function's call list must be explainable by one call per evaluation point (or a cache skip); a second run on look-up tables of the first run's log, raising on any unexpected call, must reproduce the result bit for bit.",
             note=E2E_NOTE, ref="4/C06"),
 "C07": dict(tech="property-based testing (Hypothesis): generated minimize calls aimed at every exit, status/message/success checked against harness-side ground truth",
             text="Exploration: runs ending by target, feasibility, callback, maxfev (below/at/above nb_points), maxiter, all-fixed, inconsistent bounds, singular systems; each status must be justified by the ground truth (taps, spies, options) and carry its documented message; success implies the documented post-conditions.",
             note=E2E_NOTE, ref="4/C07"),
 "C08": dict(tech="property-based testing / fault injection (Hypothesis): valid calls with NaN/inf/huge values injected by evaluation index or region, degenerate bounds and callbacks; exception bucketing by (type, innermost cobyqa frame)",
             text="Exploration over fault sequences: any exception from a valid call is a violation (bucketed by type and frame), results must be well formed, only finite values may reach the models, reported values are raw, NaN results are never successful; a SIGALRM watchdog marks non-returning cases inconclusive.",
             note=E2E_NOTE + " AssertionErrors from cobyqa's own debug assertions under debug=True are diagnostics (counted), see DESIGN.md.", ref="4/C08"),
 "C09": dict(tech="property-based testing (Hypothesis): dry run to place a trigger at a chosen evaluation kind, then oracle on the real run's logs (first triggering evaluation recomputed by the harness)",
             text="Exploration: a request plan (target / callback / feasibility / two at once) is placed at the first point, inside the initial sampling, at a trust-region, second-order-correction or geometry evaluation; the run must stop exactly there, report the matching status and nfev, and the converse must hold.",
             note=E2E_NOTE + " Cases within rounding of feasibility_tol are counted as undecidable.", ref="4/C09"),
 "C20": dict(tech="property-based testing (Hypothesis): metamorphic pairs of runs (never-stopping vs stopping at call k vs overwriting callback) over all callback forms",
             text="Exploration: callback called once per evaluation in the right convention with an in-bounds, already evaluated user-space point and its raw value; the run stopped at call k returns exactly what the never-stopping run handed to call k (nfev=k, status 3); overwriting the array changes nothing.",
             note=E2E_NOTE, ref="4/C20"),
 "C04": dict(tech="property-based testing (Hypothesis): constructed reference instances with harness-side exact minimisers (closed forms, KKT system, active-set enumeration), default options",
             text="Exploration: instances of the five reference families are built around chosen solutions (KKT construction for the box family, cross-checked by enumeration of the 3^n active sets); status 0, success, distance to the exact minimiser and feasibility are checked; three rare failure modes are listed known findings with history signatures.",
             note="Distance thresholds per family calibrated on the unchanged tree; statistical by nature (see known_findings.txt KF-C04-1..3).", ref="4/C04"),
 "C10": dict(tech="metamorphic property-based testing (Hypothesis): pairs of equivalent statements run and compared bitwise; component clause on internal linear residuals",
             text="Exploration: fixed-variable elimination, Bounds vs array, dict vs NonlinearConstraint, split of two-sided constraints, merge of one-sided objects, scale=True vs the explicitly rescaled problem: same evaluated points (mapped through the restatement), same result; internal linear residuals equal the user's at build_x(point).",
             note="Dyadic data make the harness-side restatement exact; end-to-end bitwise comparison of the scale / fixed restatements is made without linear constraints (see DESIGN.md), whose residuals are decided by the component clause.", ref="4/C10"),
 "C11": dict(tech="property-based testing over schedules (Hypothesis-drawn choice sequences driving a harness-owned thread scheduler at user-call and line granularity), repetition, nesting, argument snapshots",
             text="Exploration over schedules: K calls on K threads with exactly one thread running between yield points chosen by the drawn schedule (user-function calls, or every few line events inside cobyqa/ via sys.settrace), calls sharing bounds/constraint/options objects, nested calls, repeated calls, deep snapshots of every argument (also read-only arrays); each call must equal its stand-alone run bit for bit.",
             note="Interleavings inside a bytecode or inside NumPy/LAPACK are reached only by the free-running stress mode, which is not reproducible by seed.", ref="4/C11, 6"),
 "C12": dict(tech="stateful property-based testing (Hypothesis rule-based machine on a real Models instance) + end-to-end taps; tolerance scaled by measured conditioning",
             text="Exploration over histories of replace / shift / reset (incl. near-degenerate replacements): every model interpolates every recorded value within 1e4*eps*kappa*T*M, a twin model fed the objective's values has the objective's residual, recorded values are the returned ones; the same residual clause after every model operation of real runs.",
             note="kappa includes the squared ratio of extreme set diameters of the history; bounds that would be vacuous (kappa >= 1e12) are skipped and counted.", ref="4/C12"),
 "C13": dict(tech="stateful property-based testing against an exact rational (fractions.Fraction) reference model + independent variational clause",
             text="Exploration over histories: value, directional derivatives and curvature of the float model vs the same least-Frobenius-norm recursion in exact arithmetic; consistency of hess / hess_prod / curv / grad differences; invariance under base shifts; orthogonality of the (update of the) Hessian to every quadratic vanishing on the set.",
             note="Reference built from the definition of the method (vf/ref/exact.py); clauses evaluated for conditioning below 1e8.", ref="4/C13"),
 "C14": dict(tech="stateful property-based testing: Models.determinants vs exact determinant ratios by rational elimination",
             text="Exploration over histories and candidate points within 4 set diameters: determinants(x,k) and determinants(x) equal det(W_new)/det(W_old) computed exactly, within 1e4*eps*kappa*M with M the first-order sensitivity of the updating formula.",
             note="Comparisons for kappa < 1e10 and |ratio| in [1e-6, 1e6].", ref="4/C14"),
 "C15": dict(tech="property-based testing (Hypothesis): direct calls of the five subproblem solvers on structured-degenerate data, validity predicate on the returned step",
             text="Exploration: 80k (quick) generated subproblems with every listed degeneracy, half with coherent scales, half sweeping 12 decades; bounds exact, radius within rounding, linear admissibility with norm-based tolerances, no exception.",
             note="Row-norm ratios beyond 1e12 are counted, not claimed (observation O1).", ref="4/C15"),
 "C16": dict(tech="property-based testing (Hypothesis): same generator, harness-side evaluation of each subproblem objective and of the first-segment projected-gradient Cauchy step",
             text="Exploration: no tangential step increases the model, no normal step increases the linearised violation, no geometry step decreases |c+q|, the bound-constrained tangential step achieves the Cauchy decrease, the Cauchy geometry step strictly improves when a representable first-order gain exists.",
             note="Known finding KF-C16-1 (absolute small-gradient cut-off of the TCG solvers) is recognised by evaluating the solvers' own stopping predicate on the input.", ref="4/C16"),
 "C17": dict(tech="exhaustive enumeration of the limit-pattern lattice + property-based testing (Hypothesis) of mixed objects through minimize's own normalisation",
             text="Exhaustive for 1..2 (quick) / 1..3 (thorough) components over 15 consistent (lb,ub) patterns and a 5-point value grid for LinearConstraints, NonlinearConstraints and BoundConstraints; generated mixes of 0..3 objects of each kind with broadcasting, NaN coefficients, near-equal limits; Problem-level maxcv.",
             note="The enumerated part is exhaustive for the stated lattice only.", ref="4/C17"),
 "C18": dict(tech="property-based testing with taps on the trust-region state at every iteration + stateful rule machine on a bare TrustRegion",
             text="Exploration: radius_final <= resolution <= radius, monotone resolution, finite non-negative penalty, centre = least-merit point (recomputed), replaced index != centre, status 0 only at resolution == radius_final, over radii spanning 30 decades and constants anywhere in their domains; rule machine over update_radius / short_step / enhance_resolution with a logarithmic bound on the number of reductions.",
             note="'Reaches radius_final' is decided as a bound in the rule machine, not as a liveness proof of the main loop.", ref="4/C18, 6"),
 "C19": dict(tech="exhaustive enumeration of single settings and coupled pairs on boundary lattices + property-based testing of random subsets (Hypothesis)",
             text="Exhaustive singles (33 settings x 5-9 lattice points) and pairs (6 couples x lattice products); random subsets with unknown names; expected validity from the harness' own table; completed dicts checked for relations and documented defaults.",
             note="The table of domains/relations in vf/props/c19.py transcribes the docstring and error messages.", ref="4/C19"),
}
NOT_YET = "check not built yet in this session (planned, see DESIGN.md section 4)"

checks, na = [], []
for p in props:
    pid = p["id"]
    if pid in CHECKS:
        c = CHECKS[pid]
        checks.append({
            "property_id": pid,
            "quick_cmd": "./check %s quick" % pid,
            "thorough_cmd": "./check %s thorough" % pid,
            "evidence_file": "evidence/%s.json" % pid,
            "replay_cmd_template": "./check %s --replay {path}" % pid,
            "engine": "vf",
            "level_claimed": {"category": "exploration", "text": c["text"], "design_ref": "DESIGN.md section " + c["ref"]},
            "level_note": c["note"],
            "technique": c["tech"],
        })
    else:
        na.append({"property_id": pid, "reason": NOT_YET})
man = {
 "version": 1,
 "setup_cmd": "./setup.sh",
 "hooks": {"guard": "COBYQA_VERIF", "enable": "no source hooks are needed: the checks observe cobyqa through user-space spies and harness-side monkeypatches (taps) installed by the check process; ./check exports COBYQA_VERIF=1 for uniformity",
           "baseline_off_cmd": "cd /repo && /venv/bin/python -m pytest -ra -q -p no:cacheprovider --timeout=900 --continue-on-collection-errors",
           "source_commits": [], "add_only": True},
 "engines": [{"name": "vf", "path": "vf/", "serves_properties": sorted(CHECKS), "kind_free_text": "Hypothesis-driven sharded property checks (given-style and rule-based state machines), exhaustive lattices, atheris fuzz targets; explicit oracles per clause; collect-then-shrink per root-cause bucket"}],
 "checks": checks,
 "not_applicable": na,
 "notes": "All checks: ./check <ID> <quick|thorough>; VERIF_SEED selects the Hypothesis seed (shard w uses seed*1000+w), VERIF_WORKERS the number of processes (default 16). Known findings and repaired defects: known_findings.txt.",
}
json.dump(man, open(os.path.join(HERE, "MANIFEST.json"), "w"), indent=1)
print("claimed:", [c["property_id"] for c in checks], "unclaimed:", len(na))
