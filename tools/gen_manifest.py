#!/venv/bin/python
"""Regenerate /verif/MANIFEST.json from the table below (kept in one place so that it stays valid)."""
import json, os, sys
HERE = os.path.dirname(os.path.dirname(os.path.abspath(__file__)))
props = [json.loads(l) for l in open(os.path.join(HERE, "properties.jsonl"))]

CHECKS = {
 "C01": dict(tech="property-based testing (Hypothesis): generated minimize calls, spies on every user-visible point + tap on Problem.__call__, exact box oracle",
             text="Exploration: thousands of generated problems (all bound patterns, x0 patterns, scale, faults, constraints); every point seen by fun/constraints/callback and res.x is compared exactly with the box, and the solver-space trial point is checked before projection at every evaluation (init/tr/soc/geo).",
             note="Trusts the spies (vf/spec.py) and the harness-side tap of Problem.__call__; a green run means no violation among the generated cases, not absence.", ref="4/C01"),
 "C02": dict(tech="property-based testing (Hypothesis): generated minimize calls, differential oracle = harness recomputation of the true violation from the user's statement and the logged raw values",
             text="Exploration: generated problems stratified over scale x fixed x constraint kinds x limit patterns x bounds form x NC/dict; res.x must be an evaluated point, res.fun the raw logged value (bitwise), res.maxcv the harness-side violation within a rounding tolerance.",
             note="Trusts the spies and vf/spec.py:true_violation; tolerance 256*eps*magnitudes.", ref="4/C02"),
}
NOT_YET = "check not built yet in this session (planned, see DESIGN.md section 4)"

checks, na = [], []
for p in props:
    pid = p["id"]
    if pid in CHECKS:
        c = CHECKS[pid]
        checks.append({
            "property_id": pid,
            "quick_cmd": "./check %s quick" % pid,
            "thorough_cmd": "./check %s thorough" % pid,
            "evidence_file": "evidence/%s.json" % pid,
            "replay_cmd_template": "./check %s --replay {path}" % pid,
            "engine": "vf",
            "level_claimed": {"category": "exploration", "text": c["text"], "design_ref": "DESIGN.md section " + c["ref"]},
            "level_note": c["note"],
            "technique": c["tech"],
        })
    else:
        na.append({"property_id": pid, "reason": NOT_YET})
man = {
 "version": 1,
 "setup_cmd": "./setup.sh",
 "hooks": {"guard": "COBYQA_VERIF", "enable": "no source hooks are needed: the checks observe cobyqa through user-space spies and harness-side monkeypatches (taps) installed by the check process; ./check exports COBYQA_VERIF=1 for uniformity",
           "baseline_off_cmd": "cd /repo && /venv/bin/python -m pytest -ra -q -p no:cacheprovider --timeout=900 --continue-on-collection-errors",
           "source_commits": [], "add_only": True},
 "engines": [{"name": "vf", "path": "vf/", "serves_properties": sorted(CHECKS), "kind_free_text": "Hypothesis-driven sharded property checks (given-style and rule-based state machines), exhaustive lattices, atheris fuzz targets; explicit oracles per clause; collect-then-shrink per root-cause bucket"}],
 "checks": checks,
 "not_applicable": na,
 "notes": "All checks: ./check <ID> <quick|thorough>; VERIF_SEED selects the Hypothesis seed (shard w uses seed*1000+w), VERIF_WORKERS the number of processes (default 16). Known findings and repaired defects: known_findings.txt.",
}
json.dump(man, open(os.path.join(HERE, "MANIFEST.json"), "w"), indent=1)
print("claimed:", [c["property_id"] for c in checks], "unclaimed:", len(na))
