#!/bin/bash
# Offline, idempotent: hypothesis into /venv (already there on this image), atheris beside /verif.
cd "$(dirname "$0")" || exit 1
export PIP_NO_INDEX=1
/venv/bin/python -c "import hypothesis" 2>/dev/null || /venv/bin/pip install --no-index --find-links /opt/veriftools/wheels hypothesis || exit 1
if ! PYTHONPATH=.deps /venv/bin/python -c "import atheris" 2>/dev/null; then
  /venv/bin/pip install --no-index --find-links /opt/veriftools/wheels --target .deps atheris >/dev/null 2>&1 || echo "atheris not installable here: fuzz tier falls back to Hypothesis"
fi
/venv/bin/python -c "import hypothesis, numpy, scipy; print('setup ok: hypothesis', hypothesis.__version__)"
