import numpy as np, sys, collections, math
from scipy.optimize import Bounds, NonlinearConstraint
from cobyqa.problem import *
rng=np.random.default_rng(int(sys.argv[1]) if len(sys.argv)>1 else 0)
TOL=0.5   # feasibility tol (dyadic so 'equal to tol' is exact)
POOL_F=[-2.0,-1.0,0.0,1.0,1.0,2.0,np.nan,np.inf,-np.inf]
POOL_V=[-1.0,0.0,0.25,0.5,0.5,0.75,1.0,3.0,np.nan,np.inf]   # constraint value c; violation=max(c,0)
def mk(fs):
    F=[];V=[]
    obj=ObjectiveFunction(lambda x: F[int(x[0])],False,False)
    nl=NonlinearConstraints([NonlinearConstraint(lambda x: V[int(x[0])],-np.inf,0.0)],False,False)
    pb=Problem(obj,[0.0],BoundConstraints(Bounds([-np.inf],[np.inf])),LinearConstraints([],1,False),nl,None,TOL,False,False,1,fs,False)
    return pb,F,V
def isn(x): return isinstance(x,float) and math.isnan(x)
def ref_select(pairs,penalty):
    """pairs: list of (f,cv). returns set of acceptable (f,cv) value pairs, or None for 'permissive'"""
    full=[(f,c) for f,c in pairs if not isn(f) and not isn(c)]
    if not full: return None
    feas=[(f,c) for f,c in full if c<=TOL]
    if feas:
        fm=min(f for f,c in feas); cm=min(c for f,c in feas if f==fm); return {(fm,cm)}
    fin=[(f,c) for f,c in full if math.isfinite(c)]
    if not fin:
        fm=min(f for f,c in full); return {(fm,c) for f,c in full if f==fm}
    mer=[(f+penalty*c if not (penalty==0 and False) else f,f,c) for f,c in fin]
    mer=[(m,f,c) for m,f,c in mer if not isn(m)]
    if not mer: return None
    mm=min(m for m,f,c in mer); cand=[(f,c) for m,f,c in mer if m==mm]
    cm=min(c for f,c in cand); cand=[(f,c) for f,c in cand if c==cm]; fm=min(f for f,c in cand)
    return {(fm,cm)}
def model_filter(pairs,fs):
    """reference model of retained set: non-dominated (NaN-aware: defined beats NaN), FIFO beyond fs"""
    ret=[]
    for f,c in pairs:
        fn,cn=isn(f),isn(c)
        if fn and cn: inc=len(ret)==0
        elif fn: inc=all((isn(rf) and c<rc) or isn(rc) for rf,rc in ret)
        elif cn: inc=all((isn(rc) and f<rf) or isn(rf) for rf,rc in ret)
        else: inc=all(f<rf or c<rc or isn(rf) or isn(rc) for rf,rc in ret)
        if inc:
            if fn: ret=[(rf,rc) for rf,rc in ret if not isn(rf)]
            elif cn: ret=[(rf,rc) for rf,rc in ret if not isn(rc)]
            else: ret=[(rf,rc) for rf,rc in ret if not (isn(rf) or isn(rc) or (f<=rf and c<=rc))]
            ret.append((f,c))
            if len(ret)>fs: ret.pop(0)
    return ret
res=collections.Counter(); shown=0
for h in range(int(sys.argv[2]) if len(sys.argv)>2 else 3000):
    fs=int(rng.choice([1,2,3,5,10**9])); pb,F,V=mk(fs); pairs=[]
    for t in range(int(rng.integers(1,15))):
        f=float(rng.choice(POOL_F)); v=float(rng.choice(POOL_V)); F.append(f); V.append(v)
        with np.errstate(all='ignore'): pb(np.array([float(t)]))
        cv=max(v,0.0) if not isn(v) else np.nan
        pairs.append((f,cv))
        pen=float(rng.choice([0.0,1e-6,1.0,1e3,1e12]))
        with np.errstate(all='ignore'): x,bf,bc=pb.best_eval(pen)
        bf=float(bf); bc=float(bc)
        i=int(x[0]); 
        same=lambda a,b: (isn(a) and isn(b)) or a==b
        if not (same(F[i],bf) and same(pairs[i][1],bc)): res['not-a-fed-triple']+=1
        universe=pairs if fs>=10**9 else model_filter(pairs,fs)
        acc=ref_select(universe,pen)
        res['queries']+=1
        if acc is None: res['permissive']+=1; continue
        if not any(same(bf,a)and same(bc,b) for a,b in acc):
            res['MISMATCH']+=1
            if shown<6: shown+=1; print('MISMATCH fs',fs,'pen',pen,'pairs',pairs,'got',(bf,bc),'want',acc)
print(res)
