# Prototype: C12 twin clause + kappa-based tolerance, C13 exact reference, C14 exact determinant ratios
import numpy as np, sys, warnings, collections
from fractions import Fraction as Fr
from scipy.optimize import Bounds, LinearConstraint, NonlinearConstraint
from cobyqa.problem import *
from cobyqa.models import Models, Quadratic, build_system
from cobyqa.settings import Options
seed=int(sys.argv[1]) if len(sys.argv)>1 else 0
rng=np.random.default_rng(seed)
EPS=np.finfo(float).eps
def dy(lo,hi,size=None,den=8): return np.round(rng.uniform(lo,hi,size)*den)/den

class Script:
    """functions whose values are scripted per point (keyed by bytes of x)"""
    def __init__(self): self.tab={}
    def set(self,x,f,c): self.tab[np.asarray(x,float).tobytes()]=(f,c)
    def fun(self,x): return self.tab[np.asarray(x,float).tobytes()][0]
    def con(self,x): return np.array(self.tab[np.asarray(x,float).tobytes()][1])

def exact_solve(M,rhs):
    n=len(M); A=[row[:]+[r] for row,r in zip(M,rhs)]
    for c in range(n):
        p=next((r for r in range(c,n) if A[r][c]!=0),None)
        if p is None: return None
        A[c],A[p]=A[p],A[c]
        inv=1/A[c][c]
        for r in range(n):
            if r!=c and A[r][c]!=0:
                f=A[r][c]*inv
                A[r]=[a-f*b for a,b in zip(A[r],A[c])]
    return [A[i][n]/A[i][i] for i in range(n)]
def exact_det(M):
    n=len(M); A=[row[:] for row in M]; d=Fr(1)
    for c in range(n):
        p=next((r for r in range(c,n) if A[r][c]!=0),None)
        if p is None: return Fr(0)
        if p!=c: A[c],A[p]=A[p],A[c]; d=-d
        d*=A[c][c]; inv=1/A[c][c]
        for r in range(c+1,n):
            if A[r][c]!=0:
                f=A[r][c]*inv
                A[r]=[a-f*b for a,b in zip(A[r],A[c])]
    return d
def kkt(Y):  # Y: list of npt points (lists of Fractions), relative to base
    npt=len(Y); n=len(Y[0]); N=npt+n+1
    W=[[Fr(0)]*N for _ in range(N)]
    for i in range(npt):
        for j in range(npt):
            d=sum(a*b for a,b in zip(Y[i],Y[j])); W[i][j]=d*d/2
        W[i][npt]=Fr(1); W[npt][i]=Fr(1)
        for t in range(n): W[i][npt+1+t]=Y[i][t]; W[npt+1+t][i]=Y[i][t]
    return W
class ExactQuad:
    """c + g.(x-b) + 1/2 (x-b)'H(x-b), exact, with absolute base b"""
    def __init__(self,n): self.c=Fr(0); self.g=[Fr(0)]*n; self.H=[[Fr(0)]*n for _ in range(n)]; self.b=[Fr(0)]*n
    def val(self,x):
        d=[a-b for a,b in zip(x,self.b)]; n=len(d)
        return self.c+sum(g*di for g,di in zip(self.g,d))+sum(d[i]*self.H[i][j]*d[j] for i in range(n) for j in range(n))/2
    def add_lfn(self,P,base,resid):
        """add least-Frobenius-norm interpolant of resid on absolute points P, expanded at base"""
        n=len(base); Y=[[a-b for a,b in zip(p,base)] for p in P]; npt=len(P)
        sol=exact_solve(kkt(Y),list(resid)+[Fr(0)]*(n+1))
        lam=sol[:npt]; c=sol[npt]; g=sol[npt+1:]
        # convert to expansion at self.b: q(x)=c+g.(x-base)+1/2 sum lam_k (y_k.(x-base))^2
        H=[[sum(lam[k]*Y[k][i]*Y[k][j] for k in range(npt)) for j in range(n)] for i in range(n)]
        s=[a-b for a,b in zip(self.b,base)]   # self.b - base
        Hs=[sum(H[i][j]*s[j] for j in range(n)) for i in range(n)]
        c0=c+sum(g[i]*s[i] for i in range(n))+sum(s[i]*Hs[i] for i in range(n))/2
        g0=[g[i]+Hs[i] for i in range(n)]
        self.c+=c0; self.g=[a+b for a,b in zip(self.g,g0)]; self.H=[[self.H[i][j]+H[i][j] for j in range(n)] for i in range(n)]
        return sol
    def grad(self,x):
        d=[a-b for a,b in zip(x,self.b)]; n=len(d)
        return [self.g[i]+sum(self.H[i][j]*d[j] for j in range(n)) for i in range(n)]

def frv(v): return [Fr(float(a)) for a in v]
stats=collections.Counter(); worst=collections.defaultdict(float)
def one_history(n,npt,T,neardeg):
    sc=Script()
    pb_obj=ObjectiveFunction(sc.fun,False,False)
    b=BoundConstraints(Bounds(np.full(n,-np.inf),np.full(n,np.inf)))
    nl=NonlinearConstraints([NonlinearConstraint(sc.con,-np.inf,0.0)],False,False)   # 2 comps: twin of f, and another
    x0=dy(-2,2,n)
    pb=Problem(pb_obj,x0,b,LinearConstraints([],n,False),nl,None,1e-8,False,False,1,10**9,False)
    opts={Options.RHOBEG.value:1.0,Options.RHOEND.value:1e-6,Options.NPT.value:npt,Options.MAX_EVAL.value:10**6,Options.FEASIBILITY_TOL.value:1e-8,Options.TARGET.value:-np.inf,Options.DEBUG.value:False}
    # pre-script initial points: need to know them -> build Interpolation first
    from cobyqa.models import Interpolation
    it0=Interpolation(pb,dict(opts))
    vals={}
    for k in range(npt):
        p=it0.point(k); f=float(dy(-4,4)); c2=float(dy(-4,4)); sc.set(p,f,[f,c2])
    m=Models(pb,opts,0.0)
    P=[frv(m.interpolation.point(k)) for k in range(npt)]
    base=frv(m.interpolation.x_base)
    ex=[ExactQuad(n) for _ in range(3)]   # f, twin, other
    for e,vals_ in zip(ex,[m.fun_val,m.cub_val[:,0],m.cub_val[:,1]]):
        e.b=base[:]; e.add_lfn(P,base,frv(vals_))
    kmax=0.0; ksr=0.0; tsr=0
    for t in range(T):
        op=rng.random()
        if op<0.15:
            nb=m.interpolation.point(int(rng.integers(npt))) if rng.random()<0.5 else m.interpolation.x_base+dy(-1,1,n)
            m.shift_x_base(np.array(nb,float),opts); stats['shift']+=1
        elif op<0.2:
            m.reset_models(); stats['reset']+=1; ksr=0.0; tsr=0
            P=[frv(m.interpolation.point(k)) for k in range(npt)]
            for e,vals_ in zip(ex,[m.fun_val,m.cub_val[:,0],m.cub_val[:,1]]):
                e.c=Fr(0); e.g=[Fr(0)]*n; e.H=[[Fr(0)]*n for _ in range(n)]; e.add_lfn(P,e.b,frv(vals_))
        else:
            k=int(rng.integers(npt))
            for attempt in range(20):
                if neardeg and rng.random()<0.3:
                    j=(k+1+int(rng.integers(npt-1)))%npt
                    xn=m.interpolation.point(j)+dy(-1,1,n)*2.0**-rng.integers(20,40)
                else:
                    xn=m.interpolation.point(int(rng.integers(npt)))+dy(-2,2,n)
                # exact determinant ratio for poisedness
                Pn=[p[:] for p in P]; Pn[k]=frv(xn)
                bs=frv(m.interpolation.x_base)
                d_old=exact_det(kkt([[a-b for a,b in zip(p,bs)] for p in P])); d_new=exact_det(kkt([[a-b for a,b in zip(p,bs)] for p in Pn]))
                if d_new!=0: break
            else: continue
            ratio=float(d_new/d_old)
            # C14
            with np.errstate(all='ignore'):
                sig_k=m.determinants(np.array(xn,float),k); sig_all=m.determinants(np.array(xn,float))
            a,rs,eig=build_system(m.interpolation); kap=np.max(np.abs(eig[0]))/np.min(np.abs(eig[0]))
            if kap<1e10 and 1e-6<abs(ratio)<1e6:
                err=abs(sig_k-ratio)/max(1,abs(ratio))/(EPS*kap); worst['det']=max(worst['det'],err)
                err=abs(sig_all[k]-ratio)/max(1,abs(ratio))/(EPS*kap); worst['det_all']=max(worst['det_all'],err); stats['det_checked']+=1
            f=float(dy(-4,4)); c2=float(dy(-4,4)); sc.set(xn,f,[f,c2])
            fv,cu,ce=pb(np.array(xn,float))
            # exact update: residuals at new set
            P=Pn
            for e,v in zip(ex,[fv,cu[0],cu[1]]):
                resid=[Fr(0)]*npt; resid[k]=Fr(float(v))-e.val(P[k]); e.add_lfn(P,bs,resid)
            ill=m.update_interpolation(k,np.array(xn,float),fv,cu,ce); stats['replace']+=1; stats['ill']+=bool(ill)
        # checks
        a,rs,eig=build_system(m.interpolation); kap=np.max(np.abs(eig[0]))/np.min(np.abs(eig[0])); kmax=max(kmax,kap); ksr=max(ksr,kap); tsr+=1
        scale=max(1,np.max(np.abs(m.fun_val)),np.max(np.abs(m.cub_val)))
        def mag(e,x):
            d=[abs(float(a-b)) for a,b in zip(frv(x),e.b)]; nn=len(d)
            return abs(float(e.c))+sum(abs(float(e.g[i]))*d[i] for i in range(nn))+0.5*sum(abs(float(e.H[i][j]))*d[i]*d[j] for i in range(nn) for j in range(nn))
        mscale=max(scale,max(mag(e,m.interpolation.point(k)) for e in ex for k in range(npt)))
        r_obj=max(abs(m.fun(m.interpolation.point(k))-m.fun_val[k]) for k in range(npt))
        r_tw=max(abs(m.cub(m.interpolation.point(k))[0]-m.cub_val[k,0]) for k in range(npt))
        r_ot=max(abs(m.cub(m.interpolation.point(k))[1]-m.cub_val[k,1]) for k in range(npt))
        key='interp_nd' if neardeg else 'interp_wc'; worst[key]=max(worst[key],max(r_obj,r_tw,r_ot)/(EPS*ksr*tsr*mscale) if np.isfinite(ksr) else 0); worst[key+'_kap']=max(worst[key+'_kap'],kap if np.isfinite(kap) else 0)
        tw_tol=max(1e3*r_obj,100*EPS*min(kap,1e8)*scale)
        if r_tw>tw_tol: stats['twin_viol']+=1; worst['twin_ratio']=max(worst['twin_ratio'],r_tw/tw_tol)
        # C13 vs exact at probes (only if kmax moderate)
        if kmax<1e8:
            for _ in range(2):
                xp=m.interpolation.point(int(rng.integers(npt)))+dy(-1,1,n)
                for e,mv in zip(ex,[m.fun(xp),m.cub(xp)[0],m.cub(xp)[1]]):
                    ev=float(e.val(frv(xp)))
                    worst['model/(eps*kmax*T*scale)']=max(worst['model/(eps*kmax*T*scale)'],abs(mv-ev)/(EPS*kmax*(t+1)*max(mscale,mag(e,xp))))
                eg=np.array([float(v) for v in ex[0].grad(frv(xp))]); worst['grad']=max(worst['grad'],np.max(np.abs(m.fun_grad(xp)-eg))/(EPS*kmax*(t+1)*max(mscale,mag(ex[0],xp))))
            stats['c13_checked']+=1
    return kmax
H=int(sys.argv[2]) if len(sys.argv)>2 else 20
for h in range(H):
    n=int(rng.integers(1,4)); npt=int(rng.integers(n+1,(n+1)*(n+2)//2+1))
    one_history(n,npt,int(rng.integers(5,25)),neardeg=bool(rng.random()<0.5))
print(dict(stats)); print({k:float('%.3g'%v) for k,v in worst.items()})
