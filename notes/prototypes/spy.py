import numpy as np, warnings
from scipy.optimize import Bounds, LinearConstraint, NonlinearConstraint
from cobyqa import minimize

class Spy:
    def __init__(self, f, name):
        self.f=f; self.name=name; self.calls=[]
    def __call__(self, x, *a):
        x=np.array(x,copy=True); v=self.f(x,*a); self.calls.append((x,v)); return v
