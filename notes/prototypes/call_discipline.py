from spy import *
import sys, collections
rng=np.random.default_rng(int(sys.argv[1]) if len(sys.argv)>1 else 0)
res=collections.Counter()
def dy(lo,hi,size=None,den=8): return np.round(rng.uniform(lo,hi,size)*den)/den
for t in range(int(sys.argv[2]) if len(sys.argv)>2 else 200):
    n=int(rng.integers(2,4))
    lb=dy(-3,0,n); ub=lb+dy(0.5,4,n)
    fixed=rng.random(n)<0.3
    if fixed.all(): fixed[0]=False
    ub[fixed]=lb[fixed]
    x0=dy(-4,4,n); c=dy(-2,2,n); ctr=dy(-1,1,n)
    flog=[]; clogs=[[],[]]
    def f(x): flog.append(x.copy()); return c@x+np.sum((x-ctr)**2)
    def c1(x): clogs[0].append(x.copy()); return np.sum((x-ctr)**2)
    def c2(x): clogs[1].append(x.copy()); return [x[0]*x[-1], np.sin(x[0])]
    cons=[NonlinearConstraint(c1,-np.inf,2.0)]
    if rng.random()<0.6: cons.append(NonlinearConstraint(c2,[-1.0,-0.5],[1.0,np.inf]))
    opts={'maxfev':int(rng.integers(3,50)),'scale':bool(rng.random()<0.4 and np.all(np.isfinite(lb))),'debug':bool(rng.random()<0.3)}
    with warnings.catch_warnings():
        warnings.simplefilter('ignore')
        try: r=minimize(f,x0,bounds=Bounds(lb,ub),constraints=cons,options=opts)
        except Exception as e: res['exc:'+type(e).__name__]+=1; continue
    ok=True
    for j in range(len(cons)):
        q=clogs[j]; qi=0; last=None
        for p in flog:
            if qi<len(q) and np.array_equal(q[qi],p): last=q[qi]; qi+=1
            elif last is not None and np.array_equal(last,p): pass
            else: ok=False; break
        if qi!=len(q): ok=False
    res['ok' if ok else 'BAD']+=1
    if r.nfev!=len(flog): res['nfev-mismatch']+=1
    if not ok and res['BAD']<=3: print('BAD',len(flog),[len(q) for q in clogs],opts, 'first f pt',flog[0],'first c pt',clogs[0][0] if clogs[0] else None)
print(res)
