from spy import *
import sys, collections
rng=np.random.default_rng(int(sys.argv[1]) if len(sys.argv)>1 else 0)
res=collections.Counter()
def dy(lo,hi,size=None,den=8): return np.round(rng.uniform(lo,hi,size)*den)/den
def run(f,x0,**kw):
    with warnings.catch_warnings():
        warnings.simplefilter('ignore')
        return minimize(f,x0,**kw)
def same(a,b): return len(a)==len(b) and all(np.array_equal(x,y) for x,y in zip(a,b))
for t in range(int(sys.argv[2]) if len(sys.argv)>2 else 150):
    n=int(rng.integers(2,4))
    half=2.0**rng.integers(-1,3,n); shift=dy(-2,2,n); lb=shift-half; ub=shift+half
    x0=dy(-4,4,n); c=dy(-2,2,n); ctr=dy(-1,1,n)
    Qh=rng.integers(-2,3,size=(n,n)).astype(float); Q=Qh@Qh.T+np.eye(n)
    fq=lambda x: 0.5*x@Q@x+c@x
    g1=lambda x: np.sum((x-ctr)**2); g2=lambda x: x[0]*x[-1]+x[0]
    L1,U1=-np.inf,float(dy(1,3)); L2,U2=float(dy(-2,0)),float(dy(0.5,2))
    opts={'maxfev':50}
    # base: two objects, second two-sided
    def mk(log): 
        def f(x): log.append(x.copy()); return fq(x)
        return f
    la=[]; ra=run(mk(la),x0,bounds=Bounds(lb,ub),constraints=[NonlinearConstraint(g1,L1,U1),NonlinearConstraint(g2,L2,U2)],options=dict(opts))
    # (d) two-sided split into two one-sided in code order (lb-part first, then ub-part)
    lb_=[]; rb=run(mk(lb_),x0,bounds=Bounds(lb,ub),constraints=[NonlinearConstraint(g1,L1,U1),NonlinearConstraint(g2,L2,np.inf),NonlinearConstraint(g2,-np.inf,U2)],options=dict(opts))
    res['split-same' if same(la,lb_) and ra.status==rb.status and ra.nit==rb.nit else 'split-DIFF']+=1
    # (e) regroup two one-sided upper objects into one vector object
    lc=[]; rc=run(mk(lc),x0,bounds=Bounds(lb,ub),constraints=[NonlinearConstraint(g1,-np.inf,U1),NonlinearConstraint(g2,-np.inf,U2)],options=dict(opts))
    ld=[]; rd=run(mk(ld),x0,bounds=Bounds(lb,ub),constraints=[NonlinearConstraint(lambda x:[g1(x),g2(x)],-np.inf,[U1,U2])],options=dict(opts))
    res['regroup-same' if same(lc,ld) and rc.status==rd.status else 'regroup-DIFF']+=1
    # (f) scale
    le=[]; re_=run(mk(le),x0,bounds=Bounds(lb,ub),constraints=[NonlinearConstraint(g1,L1,U1),NonlinearConstraint(g2,L2,U2)],options={'maxfev':50,'scale':True})
    lf=[]
    X=lambda y: np.clip(y*half+shift,lb,ub)
    def fy(y): x=X(y); lf.append(x.copy()); return fq(x)
    rf=run(fy,(np.clip(x0,lb,ub)-shift)/half,bounds=Bounds(-np.ones(n),np.ones(n)),constraints=[NonlinearConstraint(lambda y:g1(X(y)),L1,U1),NonlinearConstraint(lambda y:g2(X(y)),L2,U2)],options=dict(opts))
    res['scale-same' if same(le,lf) and re_.status==rf.status and abs(re_.maxcv-rf.maxcv)<1e-12 else 'scale-DIFF']+=1
    # (a) fixed elimination
    fixed=np.zeros(n,bool); fixed[int(rng.integers(n))]=True
    lb2=lb.copy(); ub2=ub.copy(); ub2[fixed]=lb2[fixed]; xf=lb2[fixed]; fr=~fixed
    lg=[]; rg=run(mk(lg),x0,bounds=Bounds(lb2,ub2),constraints=[NonlinearConstraint(g1,L1,U1),NonlinearConstraint(g2,L2,U2)],options=dict(opts))
    lh=[]
    def full(y): x=np.empty(n); x[fixed]=xf; x[fr]=y; return x
    def fr_(y): x=full(y); lh.append(x.copy()); return fq(x)
    rh=run(fr_,x0[fr],bounds=Bounds(lb2[fr],ub2[fr]),constraints=[NonlinearConstraint(lambda y:g1(full(y)),L1,U1),NonlinearConstraint(lambda y:g2(full(y)),L2,U2)],options=dict(opts))
    res['fixed-same' if same(lg,lh) and rg.status==rh.status and abs(rg.maxcv-rh.maxcv)<1e-12 else 'fixed-DIFF']+=1
print(dict(res))
