from spy import *
import sys, collections, itertools, time
rng=np.random.default_rng(int(sys.argv[1]) if len(sys.argv)>1 else 0)
def spd(n):
    U,_=np.linalg.qr(rng.normal(size=(n,n))); lam=np.exp(rng.uniform(0,np.log(100),n)); lam=lam/lam.min()*rng.uniform(0.3,3)
    return U@np.diag(lam)@U.T
def x0_far(xs,n):
    d=rng.normal(size=n); d/=np.linalg.norm(d); return xs+d*rng.choice([0.1,1,5,20,50])
out=collections.defaultdict(list); fails=[]
N=int(sys.argv[2]) if len(sys.argv)>2 else 100
def run(fam,fun,x0,xs,**kw):
    t0=time.time()
    with warnings.catch_warnings():
        warnings.simplefilter('ignore')
        r=minimize(fun,x0,**kw)
    err=np.linalg.norm(r.x-xs)/max(1,np.linalg.norm(xs))
    out[fam].append(err)
    if r.status!=0 or not r.success or err>1e-4: fails.append((fam,r.status,bool(r.success),err,r.maxcv,r.nfev,len(x0)))
for t in range(N):
    n=int(rng.integers(1,6))
    Q=spd(n); c=rng.normal(size=n)*2
    run('unc',lambda x: 0.5*(x-c)@Q@(x-c),x0_far(c,n),c)
    # box via KKT construction
    xs=rng.normal(size=n)*2; pat=rng.integers(0,3,n) # 0 free,1 at lb,2 at ub
    mu=np.where(pat==0,0.0,rng.uniform(0.1,2,n))
    grad=np.where(pat==1,mu,np.where(pat==2,-mu,0.0))  # grad f(xs): >=0 at lb, <=0 at ub
    cc=xs-np.linalg.solve(Q,grad)
    lb=np.where(pat==1,xs,xs-rng.uniform(0.3,3,n)); ub=np.where(pat==2,xs,xs+rng.uniform(0.3,3,n))
    inf=rng.random(n)<0.3; lb=np.where(inf&(pat!=1),-np.inf,lb); inf=rng.random(n)<0.3; ub=np.where(inf&(pat!=2),np.inf,ub)
    run('box',lambda x: 0.5*(x-cc)@Q@(x-cc),x0_far(xs,n),xs,bounds=Bounds(lb,ub))
    if n>=2:
        m=int(rng.integers(1,n)); A=rng.integers(-2,3,size=(m,n)).astype(float)
        if np.linalg.matrix_rank(A)==m and np.linalg.cond(A)<10:
            b=A@rng.normal(size=n)
            K=np.block([[Q,A.T],[A,np.zeros((m,m))]]); sol=np.linalg.solve(K,np.r_[Q@c,b]); xs2=sol[:n]
            run('lineq',lambda x: 0.5*(x-c)@Q@(x-c),x0_far(xs2,n),xs2,constraints=LinearConstraint(A,b,b))
    g=rng.normal(size=n); ctr=rng.normal(size=n); r_=rng.uniform(0.5,3)
    xs3=ctr-r_*g/np.linalg.norm(g)
    run('ball',lambda x: g@x,x0_far(ctr,n),xs3,constraints=NonlinearConstraint(lambda x: np.sum((x-ctr)**2),-np.inf,r_**2))
for k,v in out.items():
    v=np.array(v); print(k,len(v),'median %.2e p99 %.2e max %.2e'%(np.median(v),np.quantile(v,0.99),v.max()))
print(len(fails)); [print(f) for f in fails[:20]]
