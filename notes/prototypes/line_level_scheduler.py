import sys, threading, time, warnings
import numpy as np
from cobyqa import minimize
from scipy.optimize import NonlinearConstraint, Bounds
warnings.simplefilter('ignore')
class Sched:
    """Only one worker runs at a time; handoff at drawn quanta of line events inside cobyqa/."""
    def __init__(self, k, quanta):
        self.sems=[threading.Semaphore(0) for _ in range(k)]; self.alive=[True]*k; self.quanta=list(quanta); self.qi=0; self.switches=0; self.lock=threading.Lock()
    def next_quantum(self):
        q=self.quanta[self.qi%len(self.quanta)]; self.qi+=1; return q
    def handoff(self, me, finished=False):
        if finished: self.alive[me]=False
        # choose next alive thread round-robin by drawn value
        cand=[i for i,a in enumerate(self.alive) if a]
        if not cand: return
        nxt=cand[(self.qi*7+me)%len(cand)]
        if nxt==me and not finished: return
        self.switches+=1
        self.sems[nxt].release()
        if not finished: self.sems[me].acquire()
def worker(i, sched, prob, out):
    budget=[sched.next_quantum()]
    def tracer(frame, event, arg):
        if 'cobyqa' not in frame.f_code.co_filename: return None
        def local(frame, event, arg):
            if event=='line':
                budget[0]-=1
                if budget[0]<=0:
                    budget[0]=sched.next_quantum(); sched.handoff(i)
            return local
        return local
    sched.sems[i].acquire()
    sys.settrace(tracer)
    try: out[i]=prob(i)
    finally:
        sys.settrace(None); sched.handoff(i, finished=True)
def prob(i):
    log=[]
    def f(x): log.append(x.copy()); return (x[0]-1-i)**2+(x[1]-2.5)**2
    r=minimize(f,[2.0,0.0],bounds=Bounds([0,0],[3,3]),constraints=[NonlinearConstraint(lambda x: x[0]**2+x[1]**2,-np.inf,4.0)],options={'maxfev':25})
    return (r.x.tobytes(), r.fun, r.nfev, np.array(log).tobytes())
t0=time.time(); base=[prob(i) for i in range(3)]; t1=time.time()-t0
rng=np.random.default_rng(0)
for trial in range(3):
    K=3; sched=Sched(K,[int(q) for q in rng.integers(1,400,size=50)]); out=[None]*K
    th=[threading.Thread(target=worker,args=(i,sched,prob,out)) for i in range(K)]
    t0=time.time()
    for t in th: t.start()
    sched.sems[0].release()
    for t in th: t.join()
    print('trial',trial,'identical',out==base,'switches',sched.switches,'time %.2fs (untraced sequential %.2fs)'%(time.time()-t0,t1))
