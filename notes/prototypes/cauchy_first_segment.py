import numpy as np, sys, collections
from cobyqa.subsolvers import tangential_byrd_omojokun
np.seterr(all='ignore')
rng=np.random.default_rng(int(sys.argv[1]) if len(sys.argv)>1 else 0)
EPS=np.finfo(float).eps
def cauchy_first(g,H,xl,xu,delta):
    n=g.size; d=-g.copy()
    d[(xl==0)&(g>0)]=0; d[(xu==0)&(g<0)]=0
    if not d.any(): return np.zeros(n),0.0
    amax=delta/np.linalg.norm(d)
    for i in range(n):
        if d[i]>0 and np.isfinite(xu[i]): amax=min(amax,xu[i]/d[i])
        if d[i]<0 and np.isfinite(xl[i]): amax=min(amax,xl[i]/d[i])
    gd=g@d; c=d@H@d
    a=amax if c<=0 else min(amax,-gd/c)
    s=a*d
    return s,g@s+0.5*s@H@s
res=collections.Counter(); worst=0
N=int(sys.argv[2]) if len(sys.argv)>2 else 20000
for it in range(N):
    n=int(rng.integers(1,7)); mg=10.0**rng.integers(-6,7); mh=10.0**rng.integers(-6,7)*rng.choice([0,1,1])
    g=rng.choice([0,1,-1,0.5,2,-3],size=n)*mg if rng.random()<0.5 else rng.normal(size=n)*mg
    k=int(rng.integers(0,n+1)); B=rng.choice([-1,0,1,2],size=(n,k)).astype(float); H=(B@np.diag(rng.choice([-1,1,0.01,3],size=k))@B.T if k else np.zeros((n,n)))*mh
    xl=-np.abs(rng.choice([0,0,1,0.5,2,1e-3,1e3],size=n)); xu=np.abs(rng.choice([0,0,1,0.5,2,1e-3,1e3],size=n))
    xl[rng.random(n)<0.2]=-np.inf; xu[rng.random(n)<0.2]=np.inf
    delta=10.0**rng.uniform(-6,6)
    imp=bool(rng.random()<0.5)
    s=tangential_byrd_omojokun(g,lambda v:H@v,xl,xu,delta,False,improve_tcg=imp)
    qs=g@s+0.5*s@H@s; sc,qc=cauchy_first(g,H,xl,xu,delta)
    absmag=np.abs(g)@np.abs(s)+0.5*np.abs(s)@np.abs(H)@np.abs(s)+np.abs(g)@np.abs(sc)+0.5*np.abs(sc)@np.abs(H)@np.abs(sc)
    tol=1e3*EPS*n*absmag
    # D15 predicate: solver's absolute small-gradient cutoff on first iteration
    free=((xl<0)|(g<0))&((xu>0)|(g>0)); gf=np.where(free,g,0.0)
    cutoff = (gf@gf) <= 10*EPS*n*max(1.0,np.linalg.norm(g))
    if qc<0:
        res['n']+=1
        if qs > qc*(1-1e-6)+tol:
            if cutoff: res['D15']+=1
            else:
                res['VIOL']+=1
                if res['VIOL']<=5: print('VIOL',n,g,xl,xu,delta,imp,'qs',qs,'qc',qc,'\nH',H,'\ns',s,'sc',sc)
    else: res['qc0']+=1
    if qs>tol: res['increase']+=1
print(res)
