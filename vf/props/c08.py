"""C08 - minimize always returns: no crash, no escape of internal exceptions, NaN-safe."""
import math
import signal

import numpy as np
from hypothesis import strategies as st

from .. import e2e
from .. import spec as S
from ..engine import Outcome
from . import c02

ID = "C08"
RULE = (
    "cases = generated *valid* minimize calls (finite x0 of any magnitude, any bounds incl. inconsistent / "
    "all fixed / NaN sides, contradictory or redundant constraints, NaN/inf/huge values injected at "
    "evaluation indices or in half-spaces of the objective and of each constraint component, degenerate "
    "objectives, callbacks that stop / overwrite / return junk); non-trivial = a fault value was actually "
    "returned by a user function during the run, or the bounds are inconsistent / all fixed, or the run ended "
    "with status -2, or a huge x0 was used; distinct = distinct spec hash"
)
ASSUMPTIONS = [
    "every generated call is valid, so any exception is a violation - except an AssertionError raised by "
    "one of cobyqa's own `if debug: assert` statements under options debug=True, which is that option "
    "doing its documented job (counted as class debug-assert:<site>, see DESIGN.md C08)",
    "termination: each case runs under a SIGALRM watchdog (60 s, about 1000x the median case); a timeout is "
    "recorded as inconclusive (class timeout) and never reported as a violation by itself",
    "non-finite values entering the models are observed through the tap on Problem.__call__ and the final "
    "contents of Models.fun_val/cub_val/ceq_val",
]

PROFILE = dict(
    ns=[(1, 3), (2, 5), (3, 3), (4, 1)],
    bound_pats=[("free", 3), ("lower", 2), ("upper", 2), ("two", 4), ("fixed", 3), ("narrow", 2), ("nanl", 1),
                ("nanu", 1)],
    bad_bounds=1, all_fixed=6,
    obj_kinds=[("quad", 4), ("lin", 2), ("abs", 1), ("rosen", 1), ("noisy", 1), ("const", 2), ("none", 2)],
    max_lin=3, max_nl=3, nl_forms=[("NC", 3), ("dict", 1)], faults=55, maxfev=(1, 70), scale_prob=35,
    callback_prob=35, stop_prob=25, opt_prob=35, infeasible_prob=30, x0_huge=4, debug_prob=20, disp_prob=5,
    target_prob=10,
)

WATCHDOG_S = 40


def budget(tier):
    return 6000 if tier == "quick" else 300000


def strategy(tier):
    # one case in eight comes from the family in which the objective and a constraint are undefined on
    # complementary half-spaces (every evaluation has exactly one undefined value)
    return st.integers(0, 7).flatmap(lambda i: S.nan_split_problems(PROFILE) if i == 0 else S.problems(PROFILE))


class _Timeout(Exception):
    pass


def _alarm(signum, frame):
    raise _Timeout()


FUEL_CALLS = 20_000_000  # line events inside cobyqa allowed between two evaluations (a whole capped run executes ~1e6)


def fuel_replay(spec, out):
    """A case stopped by the wall-clock watchdog is replayed under a deterministic fuel counter
    (Python calls inside cobyqa/, reset at every evaluation of the problem). Exhausting the fuel is
    reported as a violation ("does not return in finite time"); otherwise the case stays
    inconclusive."""
    from ..fuel import Fuel, FuelExhausted

    fuel = Fuel(FUEL_CALLS)
    b = S.build(spec, hook=lambda kind: fuel.reset())
    kw = e2e.make_kwargs(b)
    import cobyqa

    def go():
        with np.errstate(all="ignore"):
            return cobyqa.minimize(b.fun, b.x0, **kw)

    old = signal.signal(signal.SIGALRM, _alarm)
    signal.alarm(20 * WATCHDOG_S)
    try:
        fuel.run(go)
        out.label("timeout-but-returned-under-fuel")
    except FuelExhausted:
        out.fail("C08.f", "minimize does not return: more than %d line events inside cobyqa without a new "
                 "evaluation (after %d evaluations)" % (FUEL_CALLS, len(b.log.calls("obj")) or len(b.log.events)),
                 fatal=True)
    except _Timeout:
        out.label("timeout-inconclusive")
    except Exception as exc:  # judged by the normal path of other cases
        out.label("fuel-replay-exc:%s" % type(exc).__name__)
    finally:
        signal.alarm(0)
        signal.signal(signal.SIGALRM, old)


def is_debug_assert(b, t):
    """AssertionError raised by an in-code debug assertion while debug=True was requested."""
    return bool(b.options.get("debug")) and t.exc is not None and t.exc[0] == "AssertionError"


def run_case(spec):
    out = Outcome()
    old = signal.signal(signal.SIGALRM, _alarm)
    signal.alarm(WATCHDOG_S)
    try:
        b, t = e2e.run(spec)
    except _Timeout:
        signal.alarm(0)
        signal.signal(signal.SIGALRM, old)
        out.label("timeout")
        fuel_replay(spec, out)
        return out
    finally:
        signal.alarm(0)
        signal.signal(signal.SIGALRM, old)
    fault_hit = False
    for seq, kind, idx, x, val in b.log.events:
        if kind == "obj" and (not math.isfinite(val) or abs(val) >= 1e30):
            fault_hit = True
        elif kind == "nl" and (not np.all(np.isfinite(val)) or np.any(np.abs(val) >= 1e30)):
            fault_hit = True
    lb = np.where(np.isnan(b.lb), -np.inf, b.lb)
    ub = np.where(np.isnan(b.ub), np.inf, b.ub)
    all_fixed = bool(np.all(lb == ub))
    bad = not e2e.consistent_bounds(b)
    huge = bool(np.any(np.abs(np.asarray(b.x0, float)) >= 1e16))
    if fault_hit:
        out.label("fault-triggered")
    if all_fixed:
        out.label("all-fixed")
    if bad:
        out.label("inconsistent-bounds")
    if huge:
        out.label("huge-x0")
    # (a) no exception
    if t.exc is not None:
        name, msg, frame, tb = t.exc
        if name == "_Timeout":
            out.label("timeout")
            fuel_replay(spec, out)
            return out
        if is_debug_assert(b, t):
            out.label("debug-assert:%s" % frame)
        else:
            out.fail("C08.a/%s@%s" % (name, frame), "minimize raised %s: %s (innermost cobyqa frame %s)"
                     % (name, msg, frame), exc=name, frame=frame)
        out.nontrivial = fault_hit or all_fixed or bad or huge
        out.sample = e2e.summarize(spec, t)
        return out
    r = t.result
    out.label("status%d" % r.status)
    # (b) well-formed result
    try:
        from scipy.optimize import OptimizeResult
        ok = isinstance(r, OptimizeResult)
        ok = ok and isinstance(r.message, str) and len(r.message) > 0
        ok = ok and isinstance(r.status, (int, np.integer)) and not isinstance(r.status, bool)
        ok = ok and isinstance(r.success, (bool, np.bool_))
        x = r.x
        ok = ok and isinstance(x, np.ndarray) and x.shape == (b.n,) and x.dtype == np.float64
        ok = ok and isinstance(r.fun, (float, np.floating)) and isinstance(r.maxcv, (float, np.floating))
        ok = ok and isinstance(r.nfev, (int, np.integer)) and isinstance(r.nit, (int, np.integer))
        ok = ok and r.nfev >= 0 and r.nit >= 0
    except AttributeError as exc:
        ok = False
    if not ok:
        out.fail("C08.b", "malformed OptimizeResult: %r" % ({k: type(v).__name__ for k, v in r.items()},))
        return out
    # (c) only finite values enter the models
    for rec in t.evals:
        ret = rec.get("ret")
        if ret is None:
            continue
        if not (math.isfinite(ret[0]) and np.all(np.isfinite(ret[1])) and np.all(np.isfinite(ret[2]))):
            out.fail("C08.c", "a non-finite value was handed to the models by the evaluation wrapper",
                     kind=rec["kind"])
            break
    fw = t.framework
    if fw is not None and hasattr(fw, "_models"):
        m = fw.models
        if not (np.all(np.isfinite(m.fun_val)) and np.all(np.isfinite(m.cub_val)) and np.all(np.isfinite(m.ceq_val))):
            out.fail("C08.c", "non-finite recorded values in the models at the end of the run")
    # (d) reported values are raw, (e) NaN never successful
    if t.evals:
        c02.check_result(b, t, out, prefix="C08.d")
    if (math.isnan(float(r.fun)) or math.isnan(float(r.maxcv))) and bool(r.success):
        out.fail("C08.e", "result with NaN fun/maxcv labelled successful", fun=float(r.fun), maxcv=float(r.maxcv))
    if not math.isfinite(float(r.fun)) or not math.isfinite(float(r.maxcv)):
        out.label("nonfinite-result")
        if bool(r.success):
            out.fail("C08.e", "result with non-finite fun/maxcv labelled successful", fun=float(r.fun),
                     maxcv=float(r.maxcv))
    if fault_hit or all_fixed or bad or huge or r.status == -2:
        out.nontrivial = True
        out.sample = e2e.summarize(spec, t)
    return out


def _sig_bucket(prefix):
    return lambda spec, fail: fail.clause.startswith(prefix)


SIGNATURES = {}
