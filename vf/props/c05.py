"""C05 - evaluation and iteration budgets are respected and counted truthfully."""
import math

import numpy as np
from hypothesis import strategies as st

from .. import e2e
from .. import spec as S
from ..engine import Outcome

ID = "C05"
RULE = (
    "cases = generated minimize calls incl. fun=None, maxfev in {1, 2, npt-1, npt, npt+1, npt+2, 3npt, random}, "
    "maxiter in {1,2,5,50,1000}, nb_points over its range, history_size in {1,2,npt,1000}, every exit; "
    "non-trivial = the budget was binding (status 5 or 6) or the history was trimmed or fun=None; "
    "distinct = distinct spec hash"
)
ASSUMPTIONS = [
    "N = number of evaluations = number of Problem.__call__ events seen by the harness tap; it must equal the "
    "number of objective calls logged by the spy when an objective is given",
    "maxcv_history is compared with the harness-side true violation (tolerance as in C02)",
    "runs that raise are counted (crash:*) and judged by C08",
]

PROFILE = dict(
    ns=[(1, 3), (2, 5), (3, 3), (4, 1)],
    obj_kinds=[("quad", 4), ("lin", 2), ("abs", 1), ("rosen", 1), ("const", 1), ("none", 4)],
    max_lin=2, max_nl=2, nl_forms=[("NC", 4), ("dict", 1)], faults=10, maxfev=(1, 45), opt_prob=55,
    callback_prob=15, stop_prob=20, target_prob=10, scale_prob=25,
)


def budget(tier):
    return 6000 if tier == "quick" else 250000


def strategy(tier):
    # one case in five: problems prone to second-order-correction steps, with an iteration limit that binds
    # (SOC steps evaluate twice in one iteration: the budgets and counters must account for that)
    return st.integers(0, 4).flatmap(lambda k: soc_cases() if k == 0 else S.problems(PROFILE))


@st.composite
def soc_cases(draw):
    from ..engine import dec, enc

    sp = dec(draw(S.problems(dict(PROFILE, **S.SOC_PRONE))))
    sp["options"]["maxiter"] = draw(st.integers(1, 12))
    sp["options"]["maxfev"] = draw(st.integers(8, 60))
    return enc(sp)


def run_case(spec):
    out = Outcome()
    b, t = e2e.run(spec)
    if t.exc is not None:
        out.label("crash:%s@%s" % (t.exc[0], t.exc[2]))
        return out
    r = t.result
    out.label("status%d" % r.status, "fun=None" if b.fun is None else "fun")
    N = len(t.evals)
    n_obj = len(b.log.calls("obj"))
    maxfev = b.options["maxfev"]
    if b.fun is not None and n_obj != N:
        out.fail("C05.n", "the objective was called %d times for %d evaluations" % (n_obj, N))
    if N > maxfev:
        out.fail("C05.a", "the problem was evaluated at %d points although maxfev=%d" % (N, maxfev),
                 N=N, maxfev=maxfev, fun_none=b.fun is None)
    if int(r.nfev) != N:
        out.fail("C05.b", "nfev=%d but the problem was evaluated at %d points" % (r.nfev, N),
                 nfev=int(r.nfev), N=N, fun_none=b.fun is None)
    maxiter = b.options.get("maxiter")
    if maxiter is not None and r.nit > maxiter:
        out.fail("C05.c", "nit=%d > maxiter=%d" % (r.nit, maxiter))
    trimmed = False
    if b.options.get("store_history"):
        hs = b.options.get("history_size")
        want = N if hs is None else min(N, hs)
        trimmed = want < N
        fh = getattr(r, "fun_history", None)
        mh = getattr(r, "maxcv_history", None)
        if fh is None or mh is None:
            out.fail("C05.d.missing", "store_history=True but the histories are missing from the result")
        elif len(fh) != want or len(mh) != want:
            out.fail("C05.d.len", "history lengths (%d, %d) instead of min(nfev, history_size)=%d"
                     % (len(fh), len(mh), want))
        else:
            tail = t.evals[N - want:]
            for k, rec in enumerate(tail):
                ref = 0.0 if b.fun is None else rec["fun"]
                if ref is None or not e2e.same(ref, fh[k]):
                    out.fail("C05.d.fun", "fun_history[%d]=%r is not the raw objective value %r of that evaluation"
                             % (k, float(fh[k]), ref))
                    break
                if any(v is None for v in rec["nl"]):
                    continue
                tv, tol = S.true_violation(b, rec["x"], rec["nl"])
                tol = 256 * S.EPS * tol
                got = float(mh[k])
                if math.isnan(tv) or math.isnan(got):
                    ok = math.isnan(tv) and math.isnan(got)
                elif math.isinf(tv) or math.isinf(got):
                    ok = tv == got
                else:
                    ok = abs(tv - got) <= tol
                    out.ratio("maxcv_hist_err/tol", abs(tv - got) / tol if tol > 0 else 0.0)
                if not ok:
                    out.fail("C05.d.maxcv", "maxcv_history[%d]=%r differs from the true violation %r of that "
                             "evaluation" % (k, got, tv))
                    break
    elif hasattr(r, "fun_history"):
        out.label("history-without-request")
    if trimmed:
        out.label("history-trimmed")
    if r.status in (5, 6) or trimmed or b.fun is None:
        out.nontrivial = True
        out.sample = e2e.summarize(spec, t)
    if N == maxfev:
        out.label("N==maxfev")
    return out


SIGNATURES = {}
