"""C07 - status, message and success describe what actually happened."""
import math

import numpy as np
from hypothesis import strategies as st

from .. import e2e
from .. import spec as S
from ..engine import Outcome

ID = "C07"
RULE = (
    "cases = generated minimize calls aimed at every exit (targets, feasibility problems, callbacks stopping at "
    "call k, maxfev below/at/above nb_points, small maxiter, all-fixed and inconsistent bounds, tiny/huge radii "
    "for singular systems, NaN/inf faults); non-trivial = the run ended otherwise than with status 0, or ended "
    "during the initial sampling; distinct = distinct spec hash. Per-status counts are in `classes`."
)
ASSUMPTIONS = [
    "ground truth: number of evaluations and of iterations from the harness taps, the callback's own record of "
    "having raised StopIteration, the resolution and fitted radius_final read from the TrustRegion instance "
    "and the completed options at the end of the run",
    "messages are compared with the table in the docstring of minimize (without the final full stop)",
    "runs that raise are counted (crash:*) and judged by C08",
]

MESSAGES = {
    0: "The lower bound for the trust-region radius has been reached",
    1: "The target objective function value has been reached",
    2: "All variables are fixed by the bound constraints",
    3: "The callback requested to stop the optimization procedure",
    4: "The feasibility problem received has been solved successfully",
    5: "The maximum number of function evaluations has been exceeded",
    6: "The maximum number of iterations has been exceeded",
    -1: "The bound constraints are infeasible",
    -2: "A linear algebra error occurred",
}

PROFILE = dict(
    ns=[(1, 4), (2, 5), (3, 2)],
    bad_bounds=1, all_fixed=6,
    obj_kinds=[("quad", 5), ("lin", 2), ("abs", 1), ("rosen", 1), ("const", 1), ("none", 4)],
    max_lin=2, max_nl=2, nl_forms=[("NC", 4), ("dict", 1)], faults=15, maxfev=(1, 60), opt_prob=45,
    callback_prob=35, stop_prob=60, target_prob=35, scale_prob=25, radius_extreme=6, x0_huge=2,
    infeasible_prob=20,
)


def budget(tier):
    return 6000 if tier == "quick" else 250000


@st.composite
def strategy_c07(draw):
    sp = draw(S.problems(PROFILE))
    if draw(st.integers(0, 5)) == 0:
        # "exact thresholds": a first run without target yields the per-evaluation values; the case then
        # re-runs with feasibility_tol equal to the violation and target equal to the objective value of one
        # evaluation (requests satisfied with equality), preferably one preceded by a lower, more violated point
        sp = dict(sp)
        sp["exact_thresholds"] = draw(st.integers(1, 40))
    return sp


def strategy(tier):
    return strategy_c07()


def exact_thresholds(spec, out):
    """Returns the spec to run: the given one, or its exact-threshold variant derived from a dry run."""
    import copy
    from ..engine import dec, enc
    from . import c09

    k = spec.get("exact_thresholds")
    base = dec(copy.deepcopy({k_: v for k_, v in spec.items() if k_ != "exact_thresholds"}))
    if not k or base["obj"]["kind"] == "none":
        return enc(base)
    dry = copy.deepcopy(base)
    dry["options"].pop("target", None)
    dry["callback"] = {"form": "none"}
    bd, td = e2e.run(enc(dry))
    if td.exc is not None or td.result is None:
        return enc(base)
    rows = c09.evaluate_log(bd, td)
    if not rows or any(r is None for r in rows):
        return enc(base)
    ep = c09.exact_plan(rows, 1 + (k - 1) % len(rows), out)
    if ep is None:
        return enc(base)
    real = copy.deepcopy(dry)
    real["options"]["feasibility_tol"], real["options"]["target"] = ep
    out.label("exact-thresholds")
    return enc(real)


def callback_stopped(b):
    cb = b.spec.get("callback") or {}
    k = cb.get("stop_at")
    return k is not None and len(b.log.calls("cb")) >= k


def check_status(b, t, out, prefix="C07"):
    r = t.result
    st = r.status
    if isinstance(st, bool) or not isinstance(st, (int, np.integer)) or int(st) not in MESSAGES:
        out.fail(prefix + ".code", "status %r is not one of the documented codes" % (st,))
        return
    st = int(st)
    if str(r.message).rstrip(".") != MESSAGES[st]:
        out.fail(prefix + ".msg", "status %d carries the message %r" % (st, r.message), status=st)
    tol = float(b.options.get("feasibility_tol", math.sqrt(S.EPS)))
    fun, maxcv = float(r.fun), float(r.maxcv)
    N = len(t.evals)
    lb = np.where(np.isnan(b.lb), -np.inf, b.lb)
    ub = np.where(np.isnan(b.ub), np.inf, b.ub)
    if st == 0:
        fw = t.framework
        if fw is None or t.options is None:
            out.fail(prefix + ".0", "status 0 although the trust-region loop never started")
        elif not (fw.resolution <= t.options["radius_final"]):
            out.fail(prefix + ".0", "status 0 with resolution %.3g > radius_final %.3g"
                     % (fw.resolution, t.options["radius_final"]))
    elif st == 1:
        target = float(b.options.get("target", -np.inf))
        if not (fun <= target and maxcv <= tol):
            out.fail(prefix + ".1", "status 1 but the returned point has fun=%r (target %r), maxcv=%r (tol %r)"
                     % (fun, target, maxcv, tol))
    elif st == 2:
        if not np.all(lb == ub):
            out.fail(prefix + ".2", "status 2 although not all variables are fixed")
    elif st == 3:
        if not callback_stopped(b):
            out.fail(prefix + ".3", "status 3 although the callback never raised StopIteration")
    elif st == 4:
        if b.fun is not None or not (maxcv <= tol):
            out.fail(prefix + ".4", "status 4 with fun %s and maxcv=%r (tol %r)"
                     % ("given" if b.fun is not None else "None", maxcv, tol))
    elif st == 5:
        if N != b.options["maxfev"]:
            out.fail(prefix + ".5", "status 5 (maximum number of function evaluations) after %d evaluations with "
                     "maxfev=%d" % (N, b.options["maxfev"]), N=N)
    elif st == 6:
        maxiter = b.options.get("maxiter")
        if maxiter is None:
            maxiter = 1000 * max(1, int(np.sum(lb != ub)))
        if int(r.nit) != maxiter:
            out.fail(prefix + ".6", "status 6 (maximum number of iterations) with nit=%d, maxiter=%d, after %d "
                     "evaluations (maxfev=%d)" % (r.nit, maxiter, N, b.options["maxfev"]), nit=int(r.nit), N=N)
    elif st == -1:
        if e2e.consistent_bounds(b):
            out.fail(prefix + ".-1", "status -1 although the bounds are consistent")
    if not isinstance(r.success, (bool, np.bool_)):
        out.fail(prefix + ".success.type", "success is %r, not a plain truth value" % (type(r.success).__name__,))
    elif bool(r.success):
        ok = st in (0, 1, 2, 3, 4) and math.isfinite(fun) and math.isfinite(maxcv)
        ok = ok and (st in (1, 4) or maxcv <= tol)
        if not ok:
            out.fail(prefix + ".success", "success=True with status %d, fun=%r, maxcv=%r (tol %r)"
                     % (st, fun, maxcv, tol), status=st)


def run_case(spec):
    out = Outcome()
    spec = exact_thresholds(spec, out)
    b, t = e2e.run(spec)
    if t.exc is not None:
        out.label("crash:%s@%s" % (t.exc[0], t.exc[2]))
        return out
    r = t.result
    check_status(b, t, out)
    st = int(r.status) if isinstance(r.status, (int, np.integer)) else None
    out.label("status%s" % st, "success" if bool(r.success) else "no-success")
    during_init = t.framework is None or not t.iters
    if during_init:
        out.label("exit-during-init:status%s" % st)
    if st != 0 or during_init:
        out.nontrivial = True
        out.sample = e2e.summarize(spec, t)
    return out


SIGNATURES = {}
