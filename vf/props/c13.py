"""C13 - models are the least-Frobenius-norm interpolants the method prescribes."""
from .. import models_machine as MM

ID = "C13"
RULE = (
    "stateful: rule-based machine on a real cobyqa.models.Models (n in 1..3 quick / 1..4 thorough, every admissible "
    "nb_points, dyadic points and scripted values) with rules replace(k, x_new) (incl. near-degenerate choices at "
    "2^-20..2^-40 from another point; accepted only if the exact determinant ratio is non-zero), shift(base), reset(); "
    "after every rule the float model's value, gradient and Hessian at probe points inside the set are compared with "
    "the same recursion carried out in exact rational arithmetic (fractions.Fraction), the views (hess, hess_prod, "
    "curv, finite differences of grad) with each other, a base shift with itself, and <Hess(update), Hess(p)>_F = 0 "
    "is checked for exact quadratics p vanishing on the set. Non-trivial = nb_points < (n+1)(n+2)/2 (otherwise "
    "the interpolant is unique), at least one update, conditioning below 1e8; distinct = distinct history"
)
ASSUMPTIONS = [
    "tolerance 1e4*eps*kappa*T*M: kappa = largest condition number of the balanced interpolation matrix seen in "
    "the history, T = number of operations, M = sum of the absolute terms of the exact model at the probe (at "
    "least max|values|); probes stay inside the interpolation set",
    "the exact reference is built from the definition of the method (vf/ref/exact.py), and the variational "
    "clause is independent of it",
]


def budget(tier):
    return 2400 if tier == "quick" else 30000


def machines(tier):
    return [("models", MM.make_machine({"C13"}, 3 if tier == "quick" else 4, neardeg=(0,) * 8 + (20, -20, -30)), 1.0,
             12 if tier == "quick" else 30)]


def replay_ops(name, init, ops):
    return MM.replay({"C13"}, init, ops)


SIGNATURES = {}
