"""C02 - the returned fun and maxcv are the true values at the returned x."""
import math

import numpy as np
from hypothesis import strategies as st

from .. import e2e
from .. import spec as S
from ..engine import Outcome

ID = "C02"
RULE = (
    "cases = generated minimize calls (grammar vf/spec.py) stratified over scale x fixed variables x "
    "constraint kinds x limit patterns x bounds form x NonlinearConstraint/dict, capped by small "
    "maxfev/maxiter so that every exit occurs; a case is non-trivial when the run returned a result "
    "and (maxcv > 0 at the returned point, or a general constraint is active there within 1e-6, or a "
    "NaN/inf function value belongs to it, or scale/fixed variables are present together with a "
    "general constraint); distinct = distinct spec hash"
)
ASSUMPTIONS = [
    "ground truth = values logged by the user-space spies; the true violation is recomputed by the "
    "harness from the user's statement (vf/spec.py:true_violation) with a rounding tolerance of "
    "256*eps*(sum|A_ij|(|x_j|+|lb_j|+|ub_j|)+|limits|+|value|+1)",
    "an equality limit (lb == ub) is compared with the same tolerance; runs that raise are counted "
    "(class crash:*) and judged by C08, not here",
]

PROFILE = dict(
    ns=[(1, 2), (2, 5), (3, 4), (4, 1)],
    bound_pats=[("free", 2), ("lower", 2), ("upper", 2), ("two", 5), ("fixed", 3), ("narrow", 1), ("nanl", 1)],
    nl_forms=[("NC", 3), ("dict", 1)],
    max_lin=2, max_nl=2, faults=20, maxfev=(1, 50), scale_prob=45, callback_prob=15, stop_prob=30,
    target_prob=15,
)


def budget(tier):
    return 4000 if tier == "quick" else 150000


def strategy(tier):
    return S.problems(PROFILE)


def check_result(b, t, out, prefix="C02"):
    """Clauses a-c on a finished run (shared with C08.d)."""
    r = t.result
    x = np.asarray(r.x, float)
    cands = [rec for rec in t.evals if rec.get("x") is not None and e2e.same(rec["x"], x)]
    if not cands:
        out.fail(prefix + ".a", "returned x is not a point at which the functions were evaluated",
                 x=x.tolist(), nfev=int(r.nfev), status=int(r.status))
        return None
    # (b) raw objective value
    fun = float(r.fun)
    if b.fun is None:
        if not (fun == 0.0):
            out.fail(prefix + ".b", "fun=None but returned fun != 0.0", fun=fun)
        cands_f = cands
    else:
        cands_f = [rec for rec in cands if rec["fun"] is not None and e2e.same(rec["fun"], fun)]
        if not cands_f:
            out.fail(prefix + ".b", "returned fun %r is not the raw objective value logged at the returned x (%r)"
                     % (fun, [rec["fun"] for rec in cands][:3]), fun=fun, status=int(r.status))
            cands_f = cands
    # (c) true violation
    maxcv = float(r.maxcv)
    best = None
    for rec in cands_f:
        if any(v is None for v in rec["nl"]):
            continue
        tv, tol = S.true_violation(b, x, rec["nl"])
        tol = 256 * S.EPS * tol
        if math.isnan(tv) or math.isnan(maxcv):
            ok = math.isnan(tv) and math.isnan(maxcv)
            err = 0.0 if ok else float("inf")
        elif math.isinf(tv) or math.isinf(maxcv):
            ok = tv == maxcv
            err = 0.0 if ok else float("inf")
        else:
            err = abs(tv - maxcv)
            ok = err <= tol
        if best is None or err < best[0]:
            best = (err, tol, tv, rec)
    if best is None:
        out.fail(prefix + ".c", "no constraint values were logged at the returned x", maxcv=maxcv)
        return None
    err, tol, tv, rec = best
    if not (err <= tol):
        sub = ".c.nan" if (math.isnan(maxcv) != math.isnan(tv)) else ".c"
        out.fail(prefix + sub, "returned maxcv %r differs from the true violation %r at the returned x "
                 "(tolerance %.3g)" % (maxcv, tv, tol), maxcv=maxcv, true=tv, status=int(r.status),
                 scale=bool(b.options.get("scale")), nfixed=int(np.sum(b.lb == b.ub)))
    elif tol > 0 and math.isfinite(err):
        out.ratio("maxcv_err/tol", err / tol)
    return tv, rec


def run_case(spec):
    out = Outcome()
    b, t = e2e.run(spec)
    nfixed = int(np.sum(b.lb == b.ub))
    scale = bool(b.options.get("scale"))
    out.label("scale" if scale else "noscale", "fixed%d" % min(nfixed, 2),
              "lin" if b.lin else "nolin", "nl" if b.nl else "nonl",
              "bounds:" + b.spec.get("bounds_form", "Bounds"))
    if any(N.get("form") == "dict" for N in b.spec.get("nl", [])):
        out.label("dict")
    if t.exc is not None:
        out.label("crash:%s@%s" % (t.exc[0], t.exc[2]))
        return out
    r = t.result
    out.label("status%d" % r.status)
    if b.log.args_mismatch:
        # "all constraints as the user stated them": a user function must receive the extra
        # arguments its owner stated (the spies sit behind that binding, so the values they log
        # cannot reveal a mix-up)
        kind, idx, got, want = b.log.args_mismatch[0]
        out.fail("C02.c.args", "user function %s%d was called with extra arguments %r, its owner stated %r"
                 % (kind, idx, got, want), got=got, want=want)
    if sum(1 for N in b.spec.get("nl", []) if N.get("form") == "dict" and N.get("args")) >= 2:
        out.label("dict-args>=2")
    res = check_result(b, t, out)
    if res is not None:
        tv, rec = res
        active = False
        if not math.isnan(tv):
            # a general constraint active at the returned point
            x = np.asarray(r.x, float)
            for A, lo, hi in b.lin:
                ax = np.where(np.isnan(A), 0.0, A) @ x
                active |= bool(np.any(np.abs(ax - lo) < 1e-6) or np.any(np.abs(ax - hi) < 1e-6))
            for (lo, hi, _), v in zip(b.nl, rec["nl"]):
                v = np.atleast_1d(v)
                active |= bool(np.any(np.abs(v - lo) < 1e-6) or np.any(np.abs(v - hi) < 1e-6))
        weird = (not math.isfinite(float(r.fun))) or (not math.isfinite(tv))
        gen = bool(b.lin or b.nl)
        if tv > 0 or active or weird or (gen and (scale or nfixed)):
            out.nontrivial = True
            out.sample = e2e.summarize(spec, t)
        if tv > 0:
            out.label("maxcv>0")
        if active:
            out.label("active")
        if weird:
            out.label("nonfinite-at-result")
    return out


SIGNATURES = {}
