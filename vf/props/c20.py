"""C20 - the callback sees, once per evaluation, the point minimize would return."""
import copy

import numpy as np
from hypothesis import strategies as st

from .. import e2e
from .. import spec as S
from ..engine import Outcome, dec, enc

ID = "C20"
RULE = (
    "cases = (problem, callback form, stop index k, overwrite flag): the problem is run with a never-stopping "
    "callback of the drawn form (function, lambda, callable object, bound method, keyword-only function, functools.partial; positional xk or keyword "
    "intermediate_result), then again with the same callback raising StopIteration at its k-th call, then "
    "(flag) with a callback that overwrites the array it receives with NaN; non-trivial = k lies beyond the "
    "initial sampling, or scale / fixed variables are present; distinct = distinct spec hash"
)
ASSUMPTIONS = [
    "the evaluation points are those logged by the objective spy (the Problem.__call__ tap for fun=None); "
    "'one of the first k evaluated points' and all values are compared bitwise",
    "domain: consistent bounds (inconsistent bounds return before any evaluation is counted; judged by C07/C08)",
]

PROFILE = dict(
    ns=[(1, 2), (2, 5), (3, 3)],
    bound_pats=[("free", 2), ("lower", 2), ("upper", 2), ("two", 5), ("fixed", 3), ("narrow", 1), ("nanl", 1)],
    obj_kinds=[("quad", 5), ("lin", 3), ("abs", 1), ("rosen", 1), ("noisy", 1), ("none", 2)],
    max_lin=2, max_nl=2, nl_forms=[("NC", 4), ("dict", 1)], faults=15, maxfev=(2, 45), opt_prob=30,
    callback_prob=0, scale_prob=40, infeasible_prob=20, target_prob=5, all_fixed=3,
)
FORMS = S.CB_FORMS


def budget(tier):
    return 2500 if tier == "quick" else 100000


@st.composite
def strategy_c20(draw):
    return {"base": draw(S.problems(PROFILE)), "form": draw(st.sampled_from(FORMS)),
            "k": draw(st.integers(0, 200)), "overwrite": draw(st.booleans()), "junk": draw(st.booleans())}


def strategy(tier):
    return strategy_c20()


def result_tuple(r):
    return (int(r.status), int(r.nfev), int(r.nit), np.asarray(r.x, float).tobytes(),
            np.float64(r.fun).tobytes(), np.float64(r.maxcv).tobytes(), bool(r.success))


def run_case(spec):
    out = Outcome()
    base = dec(copy.deepcopy(spec["base"]))
    form = spec["form"]
    base["callback"] = {"form": form}
    if spec.get("junk"):
        base["callback"]["junk"] = True
    b, t = e2e.run(enc(base))
    if not e2e.consistent_bounds(b):
        out.label("inconsistent-bounds")
        return out
    if t.exc is not None:
        out.label("crash:%s@%s" % (t.exc[0], t.exc[2]))
        # crashes as such are C08's business - unless it is the callback that makes the call fail: a callback
        # that never stops and touches nothing must not change whether minimize raises
        nocb = copy.deepcopy(base)
        nocb["callback"] = {"form": "none"}
        b0, t0 = e2e.run(enc(nocb))
        if t0.exc is None:
            out.fail("C20.a.raise", "with a passive callback of form %s minimize raised %s: %s (it returns normally "
                     "without the callback)" % (form, t.exc[0], t.exc[1]), form=form)
        return out
    r = t.result
    out.label("status%d" % r.status, "form:" + form)
    N = len(t.evals)
    cbs = b.log.calls("cb")
    lb = np.where(np.isnan(b.lb), -np.inf, b.lb)
    ub = np.where(np.isnan(b.ub), np.inf, b.ub)
    fixed = lb == ub
    # (a) once per evaluation, in the convention the signature asks for
    n_obj = len(b.log.calls("obj")) if b.fun is not None else None
    if len(cbs) != N or len(cbs) != int(r.nfev) or (n_obj is not None and len(cbs) != n_obj):
        # (three independent counts of the evaluations: the tap on the evaluation wrapper, the reported nfev, and
        # the calls of the user's objective)
        out.fail("C20.a.count", "the callback was called %d times for %d evaluations (nfev %d, objective calls %s)"
                 % (len(cbs), N, int(r.nfev), n_obj))
        return out
    for rec in t.evals:
        if len(rec["cb"]) != 1:
            out.fail("C20.a.once", "an evaluation was followed by %d callback calls" % len(rec["cb"]))
            return out
    kw = form in S.CB_KW_FORMS
    for e in cbs:
        if bool(e[4][1]) != kw:
            out.fail("C20.a.convention", "callback of form %s was called in the %s convention"
                     % (form, "keyword" if e[4][1] else "positional"))
            return out
    # (b) the point handed over
    for k, e in enumerate(cbs):
        x = e[3]
        if x.shape != (b.n,):
            out.fail("C20.b.shape", "callback call %d received a point of shape %s" % (k + 1, x.shape))
            return out
        if not (np.all(x >= lb) and np.all(x <= ub)) or not np.all(x[fixed] == lb[fixed]):
            out.fail("C20.b.bounds", "callback call %d received a point outside the bounds / off the fixed values"
                     % (k + 1), x=x.tolist())
            return out
        prior = [rec for rec in t.evals[:k + 1] if rec.get("x") is not None and e2e.same(rec["x"], x)]
        if not prior:
            out.fail("C20.b.evaluated", "callback call %d received a point that is none of the first %d evaluated "
                     "points" % (k + 1, k + 1), x=x.tolist())
            return out
        if kw:
            fun = e[4][0]
            if fun is None:
                out.fail("C20.b.fun", "intermediate_result has no fun")
                return out
            ok = (b.fun is None and fun == 0.0) or any(rec["fun"] is not None and e2e.same(rec["fun"], fun)
                                                        for rec in prior)
            if not ok:
                out.fail("C20.b.fun", "callback call %d received fun=%r, which is not the raw value logged at "
                         "that point (%r)" % (k + 1, fun, [rec["fun"] for rec in prior][:3]))
                return out
    if N == 0:
        return out
    # (c) stopping at call k returns what the never-stopping run handed to its k-th call
    k = 1 + spec["k"] % N
    stop = copy.deepcopy(base)
    stop["callback"]["stop_at"] = k
    b2, t2 = e2e.run(enc(stop))
    if t2.exc is not None:
        out.label("crash-stop:%s@%s" % (t2.exc[0], t2.exc[2]))
    else:
        r2 = t2.result
        xk, (fk, _) = cbs[k - 1][3], cbs[k - 1][4]
        if r2.status != 3 or int(r2.nfev) != k or len(t2.evals) != k:
            out.fail("C20.c.stop", "StopIteration at callback call %d: status %d, nfev %d, %d evaluations"
                     % (k, r2.status, r2.nfev, len(t2.evals)), k=k)
        elif not e2e.same(r2.x, xk):
            out.fail("C20.c.x", "StopIteration at call %d: minimize returned %r but the callback had received %r"
                     % (k, np.asarray(r2.x).tolist(), xk.tolist()), k=k)
        elif kw and not e2e.same(r2.fun, fk):
            out.fail("C20.c.fun", "StopIteration at call %d: minimize returned fun=%r but the callback had "
                     "received fun=%r" % (k, float(r2.fun), fk), k=k)
    # (d) overwriting the received array changes nothing
    if spec.get("overwrite"):
        ow = copy.deepcopy(base)
        ow["callback"]["overwrite"] = True
        b3, t3 = e2e.run(enc(ow))
        if t3.exc is not None:
            out.fail("C20.d", "a callback overwriting its array made minimize raise %s: %s" % (t3.exc[0], t3.exc[1]))
        else:
            pts1 = [rec["x"] for rec in t.evals]
            pts3 = [rec["x"] for rec in t3.evals]
            same_pts = len(pts1) == len(pts3) and all(e2e.same(p, q) for p, q in zip(pts1, pts3))
            if result_tuple(r) != result_tuple(t3.result) or not same_pts:
                out.fail("C20.d", "a callback overwriting the array it receives changed the run")
            if any(e[1] == "cb_readonly" for e in b3.log.events):
                out.label("readonly-array")
        out.label("overwrite")
    init_n = sum(1 for rec in t.evals if rec["kind"] == "init")
    if k > init_n or bool(b.options.get("scale")) or np.any(fixed):
        out.nontrivial = True
        out.sample = {"form": form, "k": k, "N": N, "result": e2e.summarize(None, t).get("result")}
    if k > init_n:
        out.label("k-beyond-init")
    return out


SIGNATURES = {}
