"""C16 - subproblem solvers never make things worse and achieve the decrease theory needs."""
import numpy as np

from ..engine import Outcome, enc
from . import c15

ID = "C16"
RULE = (
    "cases = the same generated subproblems as C15 (five public solvers, n in 1..6, 12 decades of magnitudes, "
    "every degeneracy). Clauses evaluated by the harness on the returned step s: tangential solvers q(s) <= 0; "
    "normal solver: linearised violation at s <= at 0; geometry solvers |c + q(s)| >= |c|; bound-constrained "
    "tangential solver: q(s) <= (1-1e-6) q(s_C) with s_C the minimiser of q along the projected steepest-descent "
    "direction at the origin within box and ball (first segment of the projected-gradient path), and for a "
    "linear objective over a box inside the ball it reaches the minimising vertex; Cauchy geometry "
    "solver: |c + q(s)| > |c| whenever a feasible first-order improving direction exists. Non-trivial = bounds "
    "active at the origin in a coordinate whose gradient component is non-zero, or the box fits inside the ball "
    "(|xl|,|xu| all finite and the box diagonal <= radius); distinct = distinct spec hash"
)
ASSUMPTIONS = [
    "all comparisons allow 1e3*eps*n*(sum of the absolute values of the terms of q at the points compared)",
    "the Cauchy-decrease clause uses the first segment only: the active-set truncated CG legitimately falls "
    "short of the generalised Cauchy point (whole projected path) in about 1 % of random cases",
    "the strict-improvement clause of the Cauchy geometry solver is applied only when the first-order gain along "
    "the constrained steepest-ascent direction exceeds the rounding of q, and is judged on q(s) itself so that "
    "absorption of a tiny q(s) in c + q(s) cannot fake a failure",
]
EPS = np.finfo(float).eps


def budget(tier):
    return 80000 if tier == "quick" else 3000000


def strategy(tier):
    return c15.subproblems()


def cauchy_first(sub):
    """Minimiser of q along the projected steepest-descent direction at the origin (first segment)."""
    g, H = sub.g, sub.H
    xl, xu = np.minimum(sub.xl, 0.0), np.maximum(sub.xu, 0.0)
    d = -g.copy()
    d[(xl == 0) & (g > 0)] = 0.0
    d[(xu == 0) & (g < 0)] = 0.0
    if not d.any():
        return np.zeros(sub.n), 0.0
    nd = float(np.linalg.norm(d))
    if not np.isfinite(nd) or nd == 0.0:
        return np.zeros(sub.n), 0.0
    amax = sub.delta / nd
    for i in range(sub.n):
        if d[i] > 0 and np.isfinite(xu[i]):
            amax = min(amax, xu[i] / d[i])
        if d[i] < 0 and np.isfinite(xl[i]):
            amax = min(amax, xl[i] / d[i])
    gd = float(g @ d)
    c = float(d @ H @ d)
    a = amax if c <= 0 else min(amax, -gd / c)
    s = a * d
    return s, sub.q(s)


def d15_cutoff(sub):
    """The solvers' documented absolute small-gradient stopping test evaluated at the origin."""
    g = sub.g
    xl, xu = np.minimum(sub.xl, 0.0), np.maximum(sub.xu, 0.0)
    free = ((xl < 0) | (g < 0)) & ((xu > 0) | (g > 0))
    gf = np.where(free, g, 0.0)
    return bool(gf @ gf <= 10 * EPS * sub.n * max(1.0, float(np.linalg.norm(g))))


def run_case(spec):
    out = Outcome()
    sub = c15.Sub(spec)
    name = sub.solver
    out.label("solver:" + name)
    if sub.row_ratio() > 1e12:
        out.label("row-ratio>1e12(unclaimed)")
        return out
    try:
        s = sub.call()
    except BaseException as exc:
        if isinstance(exc, (KeyboardInterrupt, SystemExit)):
            raise
        out.label("exc:%s" % type(exc).__name__)  # C15's subject
        return out
    if not isinstance(s, np.ndarray) or s.shape != (sub.n,) or not np.all(np.isfinite(s)):
        out.label("inadmissible")
        return out
    n = sub.n
    xl, xu = np.minimum(sub.xl, 0.0), np.maximum(sub.xu, 0.0)
    qs = sub.q(s)
    tol = 1e3 * EPS * n * sub.qmag(s)
    box_in_ball = bool(np.all(np.isfinite(xl)) and np.all(np.isfinite(xu))
                       and np.linalg.norm(np.maximum(-xl, xu)) <= sub.delta)
    active_leave = bool(np.any(((xl == 0) | (xu == 0)) & (sub.g != 0)))
    if box_in_ball:
        out.label("box-inside-ball")
    if active_leave:
        out.label("bound-active-with-gradient")
    out.nontrivial = box_in_ball or active_leave
    if name in ("tangential", "constrained"):
        out.ratio("q(s)/tol:" + name, qs / tol if tol > 0 else 0.0)
        if qs > tol:
            out.fail("C16.increase/" + name, "%s returned a step that increases the model: q(s) = %.3g (tolerance "
                     "%.3g)" % (name, qs, tol))
    if name == "tangential":
        sc, qc = cauchy_first(sub)
        if qc < 0:
            tol2 = 1e3 * EPS * n * (sub.qmag(s) + sub.qmag(sc))
            if qs > qc * (1.0 - 1e-6) + tol2:
                out.fail("C16.cauchy", "bound-constrained tangential step achieves q(s) = %.6g, less than the "
                         "decrease q(s_C) = %.6g of the projected-gradient Cauchy step (improve_tcg=%s, n=%d)"
                         % (qs, qc, sub.kw["improve_tcg"], n), cutoff=d15_cutoff(sub), qs=qs, qc=qc)
            out.label("cauchy-compared")
        # linear objective over a box that fits inside the ball: the projected-gradient path ends at the
        # vertex minimising g.s, and an active-set method that adds the bounds it meets one after the
        # other must get there (each restart follows the remaining free coordinates)
        if box_in_ball and not np.any(sub.H):
            with np.errstate(invalid="ignore"):
                qstar = float(np.sum(np.where(sub.g > 0, sub.g * xl, np.where(sub.g < 0, sub.g * xu, 0.0))))
            tol3 = 1e3 * EPS * n * (sub.qmag(s) + abs(qstar))
            if qstar < 0 and not d15_cutoff(sub):
                out.label("linear-box-vertex-compared")
                if qs > qstar * (1.0 - 1e-6) + tol3:
                    # D15 again, after a restart: the gradient on the coordinates that have not reached their
                    # bound is below the solvers' absolute cut-off
                    target = np.where(sub.g > 0, xl, np.where(sub.g < 0, xu, 0.0))
                    rest = np.where((s != target) & (sub.g != 0), sub.g, 0.0)
                    cut = bool(rest @ rest <= 10 * EPS * n * max(1.0, float(np.linalg.norm(sub.g))))
                    out.fail("C16.vertex", "linear objective over a box inside the trust region: the step achieves "
                             "g.s = %.6g but the vertex of the box gives %.6g (n=%d, improve_tcg=%s)"
                             % (qs, qstar, n, sub.kw["improve_tcg"]), qs=qs, qstar=qstar, cutoff=cut)
    if name == "normal":
        def viol(v):
            r1 = np.maximum(sub.aub @ v - sub.bub, 0.0)
            r2 = sub.aeq @ v - sub.beq
            return 0.5 * float(r1 @ r1 + r2 @ r2)

        v0, vs = viol(np.zeros(n)), viol(s)
        mag = 0.5 * float(np.sum((np.abs(sub.aub) @ np.abs(s) + np.abs(sub.bub)) ** 2)
                          + np.sum((np.abs(sub.aeq) @ np.abs(s) + np.abs(sub.beq)) ** 2))
        tolv = 1e3 * EPS * (n + sub.aub.shape[0]) * max(mag, v0)
        out.ratio("viol_increase/tol", (vs - v0) / tolv if tolv > 0 else 0.0)
        if vs > v0 + tolv:
            out.fail("C16.increase/normal", "normal step increases the linearised violation from %.6g to %.6g"
                     % (v0, vs))
        out.nontrivial = out.nontrivial or bool(v0 > 0)
    if name in ("cauchy", "spider"):
        c = sub.const
        val = c + qs
        tolg = 1e3 * EPS * n * (sub.qmag(s) + abs(c))
        if abs(val) < abs(c) - tolg:
            out.fail("C16.decrease/" + name, "%s geometry step decreases the magnitude: |c + q(s)| = %.6g < |c| = %.6g"
                     % (name, abs(val), abs(c)), const=c, q=qs)
    if name == "cauchy":
        # constrained steepest-ascent direction of sign(c)*q (both signs when c == 0)
        gains = []
        for sign in ((1.0,) if sub.const > 0 else (-1.0,) if sub.const < 0 else (1.0, -1.0)):
            g = sign * sub.g
            d = g.copy()
            d[(xu == 0) & (g > 0)] = 0.0
            d[(xl == 0) & (g < 0)] = 0.0
            if not d.any():
                continue
            nd = float(np.linalg.norm(d))
            if not np.isfinite(nd) or nd == 0:
                continue
            amax = sub.delta / nd
            for i in range(n):
                if d[i] > 0 and np.isfinite(xu[i]):
                    amax = min(amax, xu[i] / d[i])
                if d[i] < 0 and np.isfinite(xl[i]):
                    amax = min(amax, xl[i] / d[i])
            gd = float(g @ d)
            curv = float(d @ (sign * sub.H) @ d)
            t = amax if curv >= 0 else min(amax, 0.5 * gd / (-curv))
            sref = t * d
            qref = float(g @ sref + 0.5 * sref @ (sign * sub.H) @ sref)
            # the gain must be representable next to |c| as well: |c + q| cannot grow by less than eps*|c|
            if not (qref > 1e3 * EPS * n * (sub.qmag(sref) + abs(sub.const)) and qref > 0):
                continue
            # ... and so must the gain available along the Cauchy direction itself, the maximiser s_C of the
            # linear term over box and ball (what a "Cauchy geometry step" moves along): the step is
            # alpha*s_C with the best alpha in [0, 1].  When positive curvature along s_C leaves a gain below
            # eps*|c|, |c + q| cannot show it, whatever another direction would give.
            lo_mu, hi_mu = 0.0, 1.0
            sc = lambda mu: np.clip(mu * g, np.where(np.isfinite(xl), xl, -sub.delta), np.where(np.isfinite(xu), xu, sub.delta))
            while float(np.linalg.norm(sc(hi_mu))) < sub.delta and hi_mu < 1e300 and np.any(sc(hi_mu) != sc(2 * hi_mu)):
                hi_mu *= 2.0
            if float(np.linalg.norm(sc(hi_mu))) > sub.delta:
                for _ in range(200):
                    mid = 0.5 * (lo_mu + hi_mu)
                    if float(np.linalg.norm(sc(mid))) > sub.delta:
                        hi_mu = mid
                    else:
                        lo_mu = mid
                s_c = sc(lo_mu)
            else:
                s_c = sc(hi_mu)
            a_c = float(g @ s_c)
            k_c = float(s_c @ (sign * sub.H) @ s_c)
            al = 1.0 if k_c >= 0 else min(1.0, a_c / (-k_c))
            gain_c = al * a_c + 0.5 * al * al * k_c
            if gain_c > 1e3 * EPS * n * (sub.qmag(s_c) + abs(sub.const)):
                gains.append(qref)
            else:
                out.label("cauchy-direction-gain-not-representable")
        if gains:
            improved = (abs(sub.const + qs) > abs(sub.const)) or (sub.const > 0 and qs > 0) or (
                sub.const < 0 and qs < 0) or (sub.const == 0 and qs != 0)
            if not improved:
                out.fail("C16.cauchy_geom", "Cauchy geometry step does not increase the magnitude (c = %.3g, q(s) = "
                         "%.3g, |s| = %.3g) although a feasible first-order improving direction gives q = %.3g"
                         % (sub.const, qs, float(np.linalg.norm(s)), max(gains)), box_in_ball=box_in_ball)
            out.label("improving-direction-exists")
    if out.nontrivial:
        out.sample = {"spec": spec, "q(s)": qs}
    return out


def sig_d15(spec, fail):
    """D15: the truncated-CG solvers stop on an *absolute* small-gradient test
    (g.sd >= -10*eps*n*max(1,|g|)); for gradients below about 1e-7 they return the zero step although
    the Cauchy step decreases the model."""
    return fail.clause in ("C16.cauchy", "C16.vertex") and bool(fail.data.get("cutoff"))


SIGNATURES = {"tcg_absolute_small_gradient_cutoff": sig_d15}
