"""C12 - models interpolate the recorded values after every update, shift and reset."""
import math

import numpy as np

from .. import e2e
from .. import models_machine as MM
from .. import spec as S
from ..engine import Outcome

ID = "C12"
RULE = (
    "stateful: rule-based machine on a real cobyqa.models.Models (n in 1..4 quick / 1..5 thorough, every admissible "
    "nb_points, three models: objective, a constraint fed exactly the objective's values (twin), another "
    "constraint) with rules replace / shift / reset incl. near-degenerate replacements that make the solver flag "
    "ill-conditioning; after every rule every model must reproduce every recorded value within "
    "1e4*eps*kappa*T*M, the twin's residual must match the objective's, and the recorded values must be the "
    "scripted ones. End to end: generated minimize calls with taps after update_interpolation / shift_x_base / "
    "reset_models checking the same residual clause and that the value recorded for a new interpolation point is "
    "the barrier-clipped value the spies logged at exactly that point. Non-trivial = at least 3 replacements and "
    "1 shift with conditioning below 1e12 (machine); a run with at least 3 model updates (end to end); "
    "distinct = distinct history / spec hash"
)
ASSUMPTIONS = [
    "kappa = largest 2-norm condition number of the balanced interpolation matrix since the last reset, T = "
    "operations since then, M = magnitude of the terms of the exact model at the interpolation points",
    "twin clause tolerance max(1e3*r_objective, 100*eps*min(kappa,1e8)*M): same data and algorithm can differ "
    "by rounding only",
    "end to end, M also covers the largest |value| recorded since the last reset: the update is model_old + "
    "correction, so its rounding is relative to model_old (e.g. after a 2^100 barrier value has left the set)",
]


def budget(tier):
    return 1600 if tier == "quick" else 20000


def machines(tier):
    return [("models", MM.make_machine({"C12"}, 4 if tier == "quick" else 5), 0.4, 15 if tier == "quick" else 60)]


def replay_ops(name, init, ops):
    return MM.replay({"C12"}, init, ops)


GIVEN_SHARE = 0.6
PROFILE = dict(
    ns=[(1, 2), (2, 5), (3, 3), (4, 1)],
    obj_kinds=[("quad", 4), ("lin", 2), ("abs", 1), ("rosen", 2), ("noisy", 1)],
    max_lin=1, max_nl=2, faults=15, maxfev=(8, 70), opt_prob=30, callback_prob=0, scale_prob=25,
    infeasible_prob=25, debug_prob=0,
)


def strategy(tier):
    return S.problems_mix([(PROFILE, 3), (dict(PROFILE, **S.SOC_PRONE), 1)])


class ModelTaps:
    """Extra taps: after every model operation check the interpolation conditions."""

    def __init__(self, trace, taps, out):
        self.t, self.taps, self.out = trace, taps, out
        self.kappa = 0.0
        self.T = 0
        self.n_updates = 0
        self.seen = 0
        self.vmax = 1.0  # largest recorded |value| since the last reset (rounding of model_old + update
        #                  is relative to the magnitude of model_old, e.g. after a 2^100 barrier value left the set)

    def __enter__(self):
        import cobyqa.models as cmodels

        me = self

        def after(kind):
            def fac(orig):
                def method(models, *a, **k):
                    r = orig(models, *a, **k)
                    me.check(models, kind, a)
                    return r
                return method
            return fac

        def after_init(orig):
            def __init__(models, *a, **k):
                n0 = len(me.t.evals)
                orig(models, *a, **k)
                me.check_init(models, n0)
                me.check(models, "init", ())
            return __init__

        self.taps.patch(cmodels.Models, "__init__", after_init)
        self.taps.patch(cmodels.Models, "update_interpolation", after("update"))
        self.taps.patch(cmodels.Models, "shift_x_base", after("shift"))
        self.taps.patch(cmodels.Models, "reset_models", after("reset"))
        return self

    def __exit__(self, *exc):
        return False

    def check_init(self, m, n0):
        """After the initial sampling: the value recorded for every interpolation point is the value the
        evaluation made at that very point returned."""
        recs = self.t.evals[n0:]
        if len(recs) != m.npt:
            self.out.label("init-evals!=npt")
            return
        for k, rec in enumerate(recs):
            if "ret" not in rec:
                return
            if not (np.array_equal(rec["x_arg"], m.interpolation.point(k)) and rec["ret"][0] == m.fun_val[k]
                    and np.array_equal(rec["ret"][1], m.cub_val[k, :]) and np.array_equal(rec["ret"][2], m.ceq_val[k, :])):
                self.out.fail("C12.e2e.point", "initial sampling: the values recorded for interpolation point %d (%r) are "
                              "not those of the evaluation made for it (at %r)"
                              % (k, m.interpolation.point(k).tolist(), np.asarray(rec["x_arg"]).tolist()), kind="init")
                return

    def check(self, m, kind, args):
        from cobyqa.models import build_system

        out = self.out
        # the recorded values are barrier-clipped: finite and within +-2^100 whatever the user functions returned
        for nm, arr in (("objective", m.fun_val), ("inequality", m.cub_val), ("equality", m.ceq_val)):
            arr = np.asarray(arr, float)
            if arr.size and not np.all(np.abs(arr) <= e2e.BARRIER):  # (NaN fails the comparison as well)
                bad = arr[~(np.abs(arr) <= e2e.BARRIER)]
                out.fail("C12.e2e.clip", "after %s: a recorded %s value (%r) is not within the barrier +-2^100"
                         % (kind, nm, float(bad.flat[0])))
                break
        if kind == "reset":
            self.kappa, self.T, self.vmax, self.seen = 0.0, 0, 1.0, len(self.t.evals)
        self.vmax = max(self.vmax, float(np.max(np.abs(m.fun_val), initial=0.0)),
                        float(np.max(np.abs(m.cub_val), initial=0.0)), float(np.max(np.abs(m.ceq_val), initial=0.0)))
        for rec in self.t.evals[self.seen:]:
            if "ret" in rec:
                self.vmax = max(self.vmax, abs(rec["ret"][0]), float(np.max(np.abs(rec["ret"][1]), initial=0.0)),
                                float(np.max(np.abs(rec["ret"][2]), initial=0.0)))
        self.seen = len(self.t.evals)
        a, rs, eig = build_system(m.interpolation)
        ev = np.abs(eig[0])
        kap = float(np.max(ev) / np.min(ev)) if np.min(ev) > 0 else math.inf
        self.kappa = max(self.kappa, kap)
        self.T += 1
        if kind == "update":
            self.n_updates += 1
            # the value recorded for the new point is the value returned at that very point
            k_new, x_new, fun_val, cub_val, ceq_val = args[:5]
            rec = self.t.evals[-1] if self.t.evals else None
            if rec is not None and "ret" in rec:
                if not (np.array_equal(rec["x_arg"], np.asarray(x_new, float)) and rec["ret"][0] == fun_val
                        and np.array_equal(rec["ret"][1], cub_val) and np.array_equal(rec["ret"][2], ceq_val)):
                    out.fail("C12.e2e.point", "the point / values stored in the models are not those of the last "
                             "evaluation (step kind %s)" % rec["kind"], kind=rec["kind"])
        if not (math.isfinite(self.kappa) and self.kappa < 1e12):
            return
        npt = m.npt
        pts = [m.interpolation.point(k) for k in range(npt)]
        xs = m.interpolation.xpt
        worst, mag = 0.0, 1.0
        models = [(m._fun, m.fun_val)] + [(m._cub[i], m.cub_val[:, i]) for i in range(m.m_nonlinear_ub)] + [
            (m._ceq[i], m.ceq_val[:, i]) for i in range(m.m_nonlinear_eq)]
        for q, vals in models:
            M = max(float(np.max(np.abs(vals), initial=1.0)), self.vmax)
            # magnitude of the terms of the model at the interpolation points
            for k in range(npt):
                d = xs[:, k]
                M = max(M, abs(q._const) + float(np.abs(q._grad) @ np.abs(d))
                        + 0.5 * float(np.abs(q._i_hess) @ (xs.T @ d) ** 2) + 0.5 * float(np.abs(d) @ np.abs(q._e_hess) @ np.abs(d)))
                worst = max(worst, abs(q(pts[k], m.interpolation) - vals[k]) / M)
        tol = MM.K * MM.EPS * self.kappa * self.T
        out.ratio("C12.e2e.interp/(eps*kappa*T*M)", worst / (MM.EPS * self.kappa * self.T))
        if not (worst <= tol):
            out.fail("C12.e2e.interp", "after %s during a run: a model misses a recorded value by %.3g relative to "
                     "the magnitude of its terms (tolerance %.3g, kappa %.3g, T %d)" % (kind, worst, tol, self.kappa, self.T))


def run_case(spec):
    out = Outcome()
    holder = {}

    def extra(trace, taps):
        holder["mt"] = ModelTaps(trace, taps, out)
        return holder["mt"]

    b, t = e2e.run(spec, extra_taps=extra)
    if t.exc is not None:
        out.label("crash:%s@%s" % (t.exc[0], t.exc[2]))
        return out
    mt = holder["mt"]
    out.label("status%d" % t.result.status)
    if mt.n_updates >= 3:
        out.nontrivial = True
        out.sample = e2e.summarize(spec, t)
    if any(rec["kind"] == "soc" for rec in t.evals):
        out.label("run-with-soc")
    return out


SIGNATURES = {}
