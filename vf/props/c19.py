"""C19 - options and constants are validated and completed consistently."""
import itertools
import math
import warnings

import numpy as np
from hypothesis import strategies as st

from ..engine import Outcome, dec, enc  # noqa: F401

ID = "C19"
EXHAUSTIVE = True
RULE = (
    "enumerated: (a) every option / constant alone at the 5-7 lattice points of its documented domain (below, at, "
    "just inside, typical, just inside the other end, at, above); (b) every coupled pair ((radius_init, "
    "radius_final), (low_ratio, high_ratio), (decrease_radius_threshold, increase_radius_factor), "
    "(moderate_, large_resolution_threshold), (penalty_increase_threshold, _factor), (maxfev, nb_points)) on the "
    "product of their lattices - both exhaustive; generated (Hypothesis): random subsets of the 13 options and 20 "
    "constants with lattice values, plus unknown names. Each case calls minimize on a 2-variable problem (maxfev "
    "<= 8; unbounded, or with one / both variables fixed by the bounds, or with inconsistent bounds - the last "
    "two are settled without iterating) and the completion routines. Non-trivial = at least two settings supplied of which one at or next "
    "to a boundary of its domain; distinct = distinct spec hash"
)
ASSUMPTIONS = [
    "the harness' own table of domains and relations (vf/props/c19.py) transcribes the docstring of minimize "
    "and the error messages; feasibility_tol and target have no documented restriction",
    "expected-valid iff every supplied value is in its domain and every supplied coupled pair satisfies its "
    "relation; a missing partner is derived by the solver, for which only the relation is required",
]
N = 2
NPT_MAX = (N + 1) * (N + 2) // 2
D = 2.0 ** -20
INF = math.inf


def unit(name):  # open interval (0, 1)
    return {"name": name, "lattice": [-0.5, 0.0, D, 0.5, 1.0 - D, 1.0, 1.5], "ok": lambda v: 0.0 < v < 1.0}


def gt1(name, typical):
    return {"name": name, "lattice": [0.5, 1.0, 1.0 + D, typical, 1e6], "ok": lambda v: v > 1.0}


OPTIONS = [
    {"name": "maxfev", "lattice": [-1, 0, 1, 2, 5, 8, 1000 * N + 1, 100000], "ok": lambda v: v > 0},
    {"name": "maxiter", "lattice": [-1, 0, 1, 2, 50, 500 * N + 1, 100000], "ok": lambda v: v > 0},
    {"name": "target", "lattice": [-INF, -1.0, 0.0, 1e30], "ok": lambda v: True},
    {"name": "feasibility_tol", "lattice": [0.0, 1e-8, 1.0], "ok": lambda v: True},
    {"name": "radius_init", "lattice": [-1.0, 0.0, D, 1.0, 1e6], "ok": lambda v: v > 0.0},
    {"name": "radius_final", "lattice": [-1.0, 0.0, D, 1e-6, 1.0, 1e6], "ok": lambda v: v >= 0.0},
    {"name": "nb_points", "lattice": [-1, 0, N, N + 1, N + 2, 2 * N + 1, NPT_MAX - 1, NPT_MAX, NPT_MAX + 1],
     "ok": lambda v: N + 1 <= v <= NPT_MAX},
    {"name": "scale", "lattice": [False, True], "ok": lambda v: True},
    {"name": "filter_size", "lattice": [-1, 0, 1, 2, 1000], "ok": lambda v: v > 0},
    {"name": "store_history", "lattice": [False, True], "ok": lambda v: True},
    {"name": "history_size", "lattice": [-1, 0, 1, 2, 1000], "ok": lambda v: v > 0},
    {"name": "debug", "lattice": [False, True], "ok": lambda v: True},
    {"name": "disp", "lattice": [False], "ok": lambda v: True},
]
CONSTANTS = [
    unit("decrease_radius_factor"),
    gt1("increase_radius_factor", math.sqrt(2.0)),
    gt1("increase_radius_threshold", 2.0),
    gt1("decrease_radius_threshold", 1.4),
    unit("decrease_resolution_factor"),
    gt1("large_resolution_threshold", 250.0),
    gt1("moderate_resolution_threshold", 16.0),
    unit("low_ratio"),
    unit("high_ratio"),
    unit("very_low_ratio"),
    {"name": "penalty_increase_threshold", "lattice": [0.5, 1.0 - D, 1.0, 1.5, 1e6], "ok": lambda v: v >= 1.0},
    gt1("penalty_increase_factor", 2.0),
    unit("short_step_threshold"),
    unit("low_radius_factor"),
    unit("byrd_omojokun_factor"),
    gt1("threshold_ratio_constraints", 2.0),
    {"name": "large_shift_factor", "lattice": [-1.0, -D, 0.0, 10.0, 1e6], "ok": lambda v: v >= 0.0},
    gt1("large_gradient_factor", 10.0),
    gt1("resolution_factor", 2.0),
    {"name": "improve_tcg", "lattice": [False, True], "ok": lambda v: True},
]
TABLE = {s["name"]: s for s in OPTIONS + CONSTANTS}
OPT_NAMES = [s["name"] for s in OPTIONS]
CONST_NAMES = [s["name"] for s in CONSTANTS]
# relation(a, b) must hold when both are supplied, and in the completed settings
RELATIONS = [
    ("radius_final", "radius_init", lambda a, b: a <= b, "radius_final <= radius_init"),
    ("low_ratio", "high_ratio", lambda a, b: a <= b, "low_ratio <= high_ratio"),
    ("decrease_radius_threshold", "increase_radius_factor", lambda a, b: a < b,
     "decrease_radius_threshold < increase_radius_factor"),
    ("moderate_resolution_threshold", "large_resolution_threshold", lambda a, b: a <= b,
     "moderate_resolution_threshold <= large_resolution_threshold"),
    ("penalty_increase_threshold", "penalty_increase_factor", lambda a, b: a <= b,
     "penalty_increase_threshold <= penalty_increase_factor"),
]
PAIRS = [(a, b) for a, b, _, _ in RELATIONS] + [("maxfev", "nb_points")]
DEFAULTS = {
    "decrease_radius_factor": 0.5, "increase_radius_factor": math.sqrt(2.0), "increase_radius_threshold": 2.0,
    "decrease_radius_threshold": 1.4, "decrease_resolution_factor": 0.1, "large_resolution_threshold": 250.0,
    "moderate_resolution_threshold": 16.0, "low_ratio": 0.1, "high_ratio": 0.7, "very_low_ratio": 0.01,
    "penalty_increase_threshold": 1.5, "penalty_increase_factor": 2.0, "short_step_threshold": 0.5,
    "low_radius_factor": 0.1, "byrd_omojokun_factor": 0.8, "threshold_ratio_constraints": 2.0,
    "large_shift_factor": 10.0, "large_gradient_factor": 10.0, "resolution_factor": 2.0, "improve_tcg": True,
    "debug": False, "feasibility_tol": math.sqrt(np.finfo(float).eps), "maxfev": 500 * N, "maxiter": 1000 * N,
    "nb_points": 2 * N + 1, "radius_init": 1.0, "radius_final": 1e-6, "scale": False, "store_history": False,
    "target": -INF, "disp": False,
}
PARTNER = {}
for a, b, _, _ in RELATIONS:
    PARTNER[a] = b
    PARTNER[b] = a


def budget(tier):
    return 1600 if tier == "quick" else 60000


PROBLEMS = ["regular", "partfixed", "allfixed", "badbounds"]


def enumerate_cases(tier):
    for s in OPTIONS + CONSTANTS:
        for v in s["lattice"]:
            yield enc({"settings": {s["name"]: v}})
            if s["name"] != "nb_points":
                # the restrictions are enforced whatever the problem: also when minimize settles it without
                # iterating (every variable fixed by the bounds; inconsistent bounds)
                for pb in PROBLEMS[1:]:
                    yield enc({"settings": {s["name"]: v}, "problem": pb})
    for a, b in PAIRS:
        for va, vb in itertools.product(TABLE[a]["lattice"], TABLE[b]["lattice"]):
            yield enc({"settings": {a: va, b: vb}})
            if "nb_points" not in (a, b):
                yield enc({"settings": {a: va, b: vb}, "problem": "allfixed"})


@st.composite
def strategy_gen(draw):
    names = draw(st.lists(st.sampled_from(OPT_NAMES + CONST_NAMES), min_size=0, max_size=8, unique=True))
    bias_valid = draw(st.booleans())
    settings = {}
    for nm in names:
        lat = TABLE[nm]["lattice"]
        if bias_valid:
            lat = [v for v in lat if TABLE[nm]["ok"](v)] or lat
        settings[nm] = draw(st.sampled_from(lat))
    unknown = {}
    if draw(st.integers(0, 4)) == 0:
        unknown["opt"] = draw(st.sampled_from(["maxeval", "rhobeg", "verbose", "tol"]))
    if draw(st.integers(0, 4)) == 0:
        unknown["const"] = draw(st.sampled_from(["eta1", "gamma", "foo_bar"]))
    problem = "regular"
    if "nb_points" not in settings and draw(st.integers(0, 2)) == 0:
        problem = draw(st.sampled_from(PROBLEMS[1:]))
    return enc({"settings": settings, "unknown": unknown, "problem": problem})


def strategy(tier):
    return strategy_gen()


def fun(x):
    return (x[0] - 1.0) ** 2 + 2.0 * (x[1] + 0.5) ** 2 + x[0] * x[1]


def problem_bounds(problem):
    from scipy.optimize import Bounds

    if problem == "partfixed":
        return Bounds([0.25, -INF], [0.25, INF])
    if problem == "allfixed":
        return Bounds([0.25, 0.5], [0.25, 0.5])
    if problem == "badbounds":
        return Bounds([1.0, 1.0], [0.0, 0.0])
    return None


def call(settings, unknown=None, problem="regular"):
    from cobyqa import minimize

    opts = {k: v for k, v in settings.items() if k in OPT_NAMES}
    consts = {k: v for k, v in settings.items() if k in CONST_NAMES}
    opts.setdefault("maxfev", 8)
    if unknown:
        if "opt" in unknown:
            opts[unknown["opt"]] = 3
        if "const" in unknown:
            consts[unknown["const"]] = 3.0
    with warnings.catch_warnings(record=True) as wl:
        warnings.simplefilter("always")
        try:
            with np.errstate(all="ignore"):
                r = minimize(fun, [0.25, 0.5], bounds=problem_bounds(problem), options=opts, **consts)
            exc = None
        except BaseException as e:  # noqa
            if isinstance(e, (KeyboardInterrupt, SystemExit)):
                raise
            r, exc = None, e
    return r, exc, [(w.category.__name__, str(w.message)) for w in wl]


def run_case(spec):
    from cobyqa.main import _set_default_constants, _set_default_options

    out = Outcome()
    spec = dec(spec)
    settings = spec["settings"]
    unknown = spec.get("unknown") or {}
    in_domain = all(TABLE[k]["ok"](v) for k, v in settings.items())
    rel_ok = all(rel(settings[a], settings[b]) for a, b, rel, _ in RELATIONS if a in settings and b in settings)
    valid = in_domain and rel_ok
    boundary = any(_near_boundary(k, v) for k, v in settings.items())
    out.nontrivial = len(settings) >= 2 and boundary
    out.label("valid" if valid else "invalid", "n_settings=%d" % min(len(settings), 4))
    out.sample = {"settings": enc(settings), "expected": "valid" if valid else "ValueError"}
    problem = spec.get("problem", "regular")
    if "nb_points" in settings:
        problem = "regular"  # nb_points is validated against the number of non-fixed variables (O2)
    out.label("problem:" + problem)
    r, exc, wl = call(settings, unknown, problem)
    if not valid:
        if exc is None:
            bad = [k for k, v in settings.items() if not TABLE[k]["ok"](v)]
            badrel = [txt for a, b, rel, txt in RELATIONS if a in settings and b in settings
                      and not rel(settings[a], settings[b])]
            out.fail("C19.accept/" + (bad[0] if bad else badrel[0].split()[0]),
                     "minimize ran with settings outside their documented domain: %r (out of domain: %s; "
                     "violated relations: %s)" % (settings, bad, badrel))
        elif not isinstance(exc, ValueError):
            out.fail("C19.exctype", "invalid settings %r raised %s instead of ValueError: %s"
                     % (settings, type(exc).__name__, exc))
        return out
    if exc is not None:
        out.fail("C19.reject/" + sorted(settings)[0] if settings else "C19.reject",
                 "valid settings %r made minimize raise %s: %s" % (settings, type(exc).__name__, exc))
        return out
    # unknown names: exactly a RuntimeWarning each, run unchanged
    want_w = len(unknown)
    got_w = [w for w in wl if w[0] == "RuntimeWarning" and "Unknown" in w[1]]
    if len(got_w) != want_w:
        out.fail("C19.unknown.warn", "%d unknown name(s) produced %d 'Unknown' RuntimeWarning(s): %r"
                 % (want_w, len(got_w), wl[:3]))
    if unknown:
        r0, exc0, _ = call(settings, None, problem)
        if exc0 is not None or not (r0.status == r.status and r0.nfev == r.nfev and np.array_equal(r0.x, r.x)
                                    and r0.fun == r.fun):
            out.fail("C19.unknown.run", "unknown names %r altered the run" % (unknown,))
        out.label("unknown-names")
    # the same options dict object passed to two calls on problems of different dimension: the dict must
    # not be written to, and the second call must take the documented defaults of *its* dimension
    if settings and not unknown and "nb_points" not in settings:
        from cobyqa import minimize
        import copy as _copy

        shared = {k: v for k, v in settings.items() if k in OPT_NAMES}
        shared.setdefault("maxfev", 8)
        snap = _copy.deepcopy(shared)
        consts_ = {k: v for k, v in settings.items() if k in CONST_NAMES}
        f3 = lambda x: float((x[0] - 1.0) ** 2 + (x[1] + 0.5) ** 2 + (x[2] - 0.25) ** 2 + x[0] * x[2])
        with warnings.catch_warnings():
            warnings.simplefilter("ignore")
            try:
                with np.errstate(all="ignore"):
                    minimize(fun, [0.25, 0.5], options=shared, **consts_)
                    r3 = minimize(f3, [0.25, 0.5, -0.5], options=shared, **consts_)
                    r3f = minimize(f3, [0.25, 0.5, -0.5], options=_copy.deepcopy(snap), **consts_)
                if shared != snap:
                    out.fail("C19.reuse.mutated", "minimize wrote into the options dict it was given: %r -> %r"
                             % (snap, shared))
                elif not (r3.nfev == r3f.nfev and np.array_equal(r3.x, r3f.x) and r3.status == r3f.status):
                    out.fail("C19.reuse.defaults", "re-using the options dict %r for a problem of another dimension "
                             "changed the run (nfev %d vs %d)" % (snap, r3.nfev, r3f.nfev))
            except Exception as exc:
                out.fail("C19.reuse.exc", "re-using the options dict %r for a problem of another dimension raised "
                         "%s: %s" % (snap, type(exc).__name__, exc))
        out.label("dict-reused")
    # completed settings
    opts = {k: v for k, v in settings.items() if k in OPT_NAMES}
    consts = {k: v for k, v in settings.items() if k in CONST_NAMES}
    with warnings.catch_warnings():
        warnings.simplefilter("ignore")
        copts = dict(opts)
        _set_default_options(copts, N)
        cconsts = _set_default_constants(**consts)
    full = dict(copts)
    full.update(cconsts)
    for k, v in settings.items():
        if k in full and not (full[k] == v or (isinstance(v, float) and isinstance(full[k], float) and math.isclose(full[k], v))):
            out.fail("C19.complete.overwrite", "supplied %s=%r became %r" % (k, v, full[k]))
    for a, b, rel, txt in RELATIONS:
        if a not in full or b not in full:
            out.fail("C19.complete.missing", "completed settings lack %s / %s" % (a, b))
        elif not rel(full[a], full[b]):
            out.fail("C19.complete.relation/" + a, "completed settings violate %s: %s=%r, %s=%r (supplied %r)"
                     % (txt, a, full[a], b, full[b], settings))
    for k, dflt in DEFAULTS.items():
        if k in settings:
            continue
        if k not in full:
            out.fail("C19.complete.missing", "completed settings lack %s" % k)
            continue
        p = PARTNER.get(k)
        if p is not None and p in settings:
            # default allowed to move only if it would contradict the supplied partner
            rel = next(r_ for a, b, r_, _ in RELATIONS if {a, b} == {k, p})
            a_is_k = next(a for a, b, _, _ in RELATIONS if {a, b} == {k, p}) == k
            compatible = rel(dflt, settings[p]) if a_is_k else rel(settings[p], dflt)
            if compatible and full[k] != dflt and not TABLE[k]["ok"](full[k]):
                out.fail("C19.complete.derived", "derived %s=%r is outside its domain" % (k, full[k]))
            if not TABLE[k]["ok"](full[k]):
                out.fail("C19.complete.derived", "derived %s=%r is outside its domain (partner %s=%r)"
                         % (k, full[k], p, settings[p]))
            continue
        if not (full[k] == dflt):
            out.fail("C19.complete.default/" + k, "unspecified %s completed to %r instead of the documented "
                     "default %r" % (k, full[k], dflt))
    return out


def _near_boundary(k, v):
    lat = TABLE[k]["lattice"]
    if isinstance(v, bool) or len(lat) <= 2:
        return False
    oks = [TABLE[k]["ok"](x) for x in lat]
    i = lat.index(v) if v in lat else -1
    if i < 0:
        return False
    return (i > 0 and oks[i - 1] != oks[i]) or (i + 1 < len(lat) and oks[i + 1] != oks[i])


SIGNATURES = {}


# ---------------------------------------------------------------------------------------------
# coverage-guided campaign (atheris / libFuzzer) over the validators, run by vf.cli after the
# Hypothesis shards; see vf/fuzz/c19_validator.py


def fuzz_campaign(tier, seed):
    """Returns (stats, violations).  Each process gets its own corpus directory under a temporary
    directory outside /verif, removed afterwards.  libFuzzer campaigns are only approximately
    reproducible from -seed; the saved failing input is the reproducible unit."""
    import json as _json
    import os
    import shutil
    import subprocess
    import sys
    import tempfile

    nproc, runs = (2, 60000) if tier == "quick" else (12, 3000000)
    tmp = tempfile.mkdtemp(prefix="c19fuzz-", dir="/tmp")
    procs = []
    try:
        for w in range(nproc):
            od = os.path.join(tmp, "p%d" % w)
            os.makedirs(os.path.join(od, "corpus"))
            cmd = [sys.executable, "-m", "vf.fuzz.c19_validator", od, os.path.join(od, "corpus"),
                   "-runs=%d" % runs, "-seed=%d" % (seed * 100 + w + 1), "-max_len=256",
                   "-artifact_prefix=%s/" % od]
            procs.append((od, subprocess.Popen(cmd, stdout=subprocess.DEVNULL, stderr=subprocess.PIPE, text=True)))
        stats = {"engine": "atheris/libFuzzer", "processes": nproc, "executions": 0, "valid": 0, "invalid": 0,
                 "boundary": 0, "distinct": 0, "samples": []}
        violations = []
        for od, pr in procs:
            _, err = pr.communicate()
            sp = os.path.join(od, "stats.json")
            if not os.path.exists(sp):
                stats.setdefault("errors", []).append((err or "")[-300:])
                continue
            st_ = _json.load(open(sp))
            for k in ("executions", "valid", "invalid", "boundary", "distinct"):
                stats[k] += st_.get(k, 0)
            stats["samples"] = (stats["samples"] + st_.get("samples", []))[:5]
            vd = os.path.join(od, "violations")
            for fn in sorted(os.listdir(vd)):
                v = _json.load(open(os.path.join(vd, fn)))
                violations.append({"bucket": v["bucket"], "msg": v["msg"], "spec": v["spec"], "data": {}})
        return stats, violations
    finally:
        shutil.rmtree(tmp, ignore_errors=True)
