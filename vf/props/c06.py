"""C06 - user functions are called once per evaluation and never behind the scenes."""
import numpy as np
from hypothesis import strategies as st

from .. import e2e
from .. import spec as S
from ..engine import Outcome

ID = "C06"
RULE = (
    "cases = generated minimize calls with 0..3 nonlinear constraint objects (NonlinearConstraint or dict, "
    "scalar or vector valued), with or without objective, scale, fixed variables, debug and disp on/off; "
    "each case is run twice: with the real functions (spied) and with look-up tables over the first run's log "
    "that raise on any unexpected call; non-trivial = at least one nonlinear constraint object and the run "
    "went beyond the initial sampling (at least one trust-region iteration evaluated a point); distinct = "
    "distinct spec hash"
)
ASSUMPTIONS = [
    "the evaluation points p_1..p_N are the objective spy's log (the harness tap on Problem.__call__ when "
    "fun=None); a constraint call may be omitted only when that function's most recent call was at the "
    "bitwise-identical point (the documented one-entry cache)",
    "the metamorphic replay feeds each function the logged values in call order; any call at another point "
    "or beyond the logged calls raises and is reported",
    "one user function in eight works in place on the array it receives (overwrites it after computing its "
    "value): the other functions of the same evaluation must still be called at the evaluation point, which the "
    "pinned code guarantees by handing each function its own copy",
]

PROFILE = dict(
    ns=[(1, 2), (2, 5), (3, 3), (4, 1)],
    obj_kinds=[("quad", 5), ("lin", 3), ("abs", 1), ("rosen", 1), ("noisy", 1), ("const", 1), ("none", 3)],
    max_lin=1, max_nl=3, nl_forms=[("NC", 3), ("dict", 1)], faults=10, maxfev=(2, 50), opt_prob=25,
    callback_prob=20, stop_prob=15, scale_prob=40, debug_prob=30, disp_prob=25, target_prob=10,
    bound_pats=[("free", 2), ("lower", 2), ("upper", 2), ("two", 5), ("fixed", 3), ("narrow", 1)],
    mutate_prob=12,
)


def budget(tier):
    return 3000 if tier == "quick" else 120000


HUGE_PROFILE = dict(PROFILE, ns=[(2, 3), (3, 3), (4, 1)], scale_prob=15, decimal_prob=0,
                    bound_pats=[("free", 2), ("lower", 1), ("two", 3), ("fixed", 3)])


@st.composite
def strategy_huge(draw):
    """One variable of huge magnitude (fixed by its bounds, or merely started far away) next to O(1) ones and a
    small initial radius: consecutive evaluation points then agree to a relative 1e-15 in the max norm while being
    different points, at which every user function must still be called."""
    from ..engine import dec, enc

    sp = dec(draw(S.problems(HUGE_PROFILE)))
    i = draw(st.integers(0, sp["n"] - 1))
    big = float(draw(st.sampled_from([2.0 ** 33, -2.0 ** 33, 2.0 ** 40])))
    lb, ub = sp["lb"][i], sp["ub"][i]
    if lb == ub or draw(st.booleans()):
        sp["lb"][i] = sp["ub"][i] = big
    else:
        sp["lb"][i], sp["ub"][i] = "-inf", "inf"
    sp["x0"][i] = big
    sp["options"].pop("scale", None)
    sp["options"].pop("nb_points", None)  # drawn for another number of non-fixed variables
    sp["options"]["radius_init"] = float(draw(st.sampled_from([2.0 ** -17, 2.0 ** -20, 2.0 ** -10])))
    sp["options"].pop("radius_final", None)
    return enc(sp)


def strategy(tier):
    return st.integers(0, 7).flatmap(lambda k: strategy_huge() if k == 0 else S.problems(PROFILE))


class UnexpectedCall(Exception):
    pass


def walk(points, calls):
    """Check one constraint function's call list against the evaluation points.
    Returns None if admissible, else a description."""
    qi = 0
    last = None
    for i, p in enumerate(points):
        if qi < len(calls) and e2e.same(calls[qi][3], p):
            last = calls[qi][3]
            qi += 1
            # extra calls at the same evaluation point are hidden re-evaluations
            if qi < len(calls) and e2e.same(calls[qi][3], p) and not (
                    i + 1 < len(points) and e2e.same(points[i + 1], p)):
                return "called more than once for evaluation %d" % (i + 1)
        elif last is not None and e2e.same(last, p):
            continue
        else:
            got = calls[qi][3] if qi < len(calls) else None
            return ("evaluation %d at %r: next call of the function is at %r"
                    % (i + 1, np.asarray(p).tolist(), None if got is None else np.asarray(got).tolist()))
    if qi != len(calls):
        return "%d call(s) beyond the %d evaluations, first at %r" % (
            len(calls) - qi, len(points), np.asarray(calls[qi][3]).tolist())
    return None


def run_case(spec):
    out = Outcome()
    b, t = e2e.run(spec)
    if t.exc is not None:
        out.label("crash:%s@%s" % (t.exc[0], t.exc[2]))
        return out
    r = t.result
    N = len(t.evals)
    out.label("status%d" % r.status, "nl%d" % len(b.nl))
    if b.fun is not None:
        pts = [e[3] for e in b.log.calls("obj")]
        if len(pts) != N:
            out.fail("C06.obj", "the objective was called %d times for %d evaluations" % (len(pts), N))
            return out
    else:
        pts = [rec["x_full"] for rec in t.evals]
    for p in pts:
        if np.asarray(p).shape != (b.n,):
            out.fail("C06.space", "a user function was called with a point of length %d (n=%d)"
                     % (np.asarray(p).size, b.n))
            return out
    for j in range(len(b.nl)):
        calls = b.log.calls("nl", j)
        bad = next((c for c in calls if c[3].shape != (b.n,)), None)
        if bad is not None:
            out.fail("C06.space", "constraint function %d was called with a point of length %d (n=%d)"
                     % (j, bad[3].size, b.n))
            continue
        why = walk(pts, calls)
        if why is not None:
            out.fail("C06.walk", "constraint function %d (%d calls for %d evaluations): %s"
                     % (j, len(calls), N, why), ncalls=len(calls), N=N)
    if int(r.nfev) != N:
        out.label("nfev!=N")
    # metamorphic replay with look-up tables
    if not out.fails:
        tables = {("obj", 0): b.log.calls("obj")}
        for j in range(len(b.nl)):
            tables[("nl", j)] = b.log.calls("nl", j)

        def lookup(kind, idx, k, x):
            tab = tables[(kind, idx)]
            if k >= len(tab):
                raise UnexpectedCall("%s%d called a %d-th time (only %d calls in the first run)"
                                     % (kind, idx, k + 1, len(tab)))
            if not e2e.same(tab[k][3], x):
                raise UnexpectedCall("%s%d call %d at another point" % (kind, idx, k + 1))
            return tab[k][4]

        b2, t2 = e2e.run(spec, taps=False, lookup=lookup)
        if t2.exc is not None:
            out.fail("C06.replay", "re-run on look-up tables raised %s: %s" % (t2.exc[0], t2.exc[1]))
        else:
            r2 = t2.result
            same = (r.status == r2.status and r.nfev == r2.nfev and r.nit == r2.nit and e2e.same(r.x, r2.x)
                    and e2e.same(r.fun, r2.fun) and e2e.same(r.maxcv, r2.maxcv))
            if not same:
                out.fail("C06.replay", "re-run on look-up tables gave a different result: status %d/%d nfev %d/%d"
                         % (r.status, r2.status, r.nfev, r2.nfev))
    if b.nl and any(rec["kind"] != "init" for rec in t.evals):
        out.nontrivial = True
        out.sample = e2e.summarize(spec, t)
    if b.options.get("debug"):
        out.label("debug")
    if b.options.get("disp"):
        out.label("disp")
    return out


SIGNATURES = {}
