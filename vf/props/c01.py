"""C01 - bound constraints are never violated anywhere the user can observe."""
import numpy as np

from .. import e2e
from .. import spec as S
from ..engine import Outcome

ID = "C01"
RULE = (
    "cases = generated minimize calls with consistent bounds (all per-variable patterns incl. fixed, "
    "narrow, NaN side), all x0 patterns, scale on/off, every objective family incl. NaN/inf faults, "
    "linear + nonlinear constraints; non-trivial = the run evaluated at least one point lying on a "
    "finite bound, or x0 was outside the box; distinct = distinct spec hash. Classes count the step "
    "kind (init / tr / soc / geo) of every evaluation."
)
ASSUMPTIONS = [
    "user-visible points are those logged by the spies on fun, every constraint function and the "
    "callback, plus res.x; comparison with the bounds is exact",
    "clause b reads the argument of Problem.__call__ through a harness-side tap and the problem's "
    "scaling factor/shift and fixed-variable mask; tolerance 16*eps*max(1,|bounds|,|x|)",
    "runs that raise are counted (crash:*) and judged by C08",
]

PROFILE = dict(
    ns=[(1, 2), (2, 5), (3, 4), (4, 1), (5, 1)],
    bound_pats=[("free", 1), ("lower", 2), ("upper", 2), ("two", 5), ("fixed", 2), ("narrow", 3), ("nanl", 1),
                ("nanu", 1)],
    x0_pats=[("in", 3), ("lb", 3), ("ub", 3), ("below", 2), ("above", 2)],
    obj_kinds=[("quad", 5), ("lin", 3), ("abs", 1), ("rosen", 1), ("noisy", 1), ("const", 1), ("none", 1)],
    max_lin=2, max_nl=2, nl_forms=[("NC", 6), ("dict", 1)], faults=15, maxfev=(1, 80), scale_prob=40,
    callback_prob=35, opt_prob=30, infeasible_prob=30, target_prob=20, mutate_prob=8,
)


def budget(tier):
    return 5000 if tier == "quick" else 200000


def strategy(tier):
    # a fifth of the cases come from the family on which second-order-correction steps are frequent
    return S.problems_mix([(PROFILE, 4), (dict(PROFILE, **S.SOC_PRONE), 1)])


def run_case(spec):
    out = Outcome()
    b, t = e2e.run(spec)
    if not e2e.consistent_bounds(b):
        out.label("inconsistent-bounds")
        return out
    lb = np.where(np.isnan(b.lb), -np.inf, b.lb)
    ub = np.where(np.isnan(b.ub), np.inf, b.ub)
    fixed = lb == ub
    if t.exc is not None:
        out.label("crash:%s@%s" % (t.exc[0], t.exc[2]))
    # (a) every user-visible point
    on_bound = False
    for seq, kind, idx, x, val in b.log.events:
        if kind not in ("obj", "nl", "cb"):
            continue
        where = {"obj": "objective", "nl": "constraint function %d" % idx, "cb": "callback"}[kind]
        if x.shape != (b.n,):
            out.fail("C01.a.shape", "%s received a point of shape %s instead of (%d,)" % (where, x.shape, b.n),
                     kind=kind)
            continue
        if not (np.all(x >= lb) and np.all(x <= ub)):
            out.fail("C01.a." + kind, "%s received a point outside the bounds by %.3g"
                     % (where, float(np.max(np.maximum(lb - x, x - ub)))), x=x.tolist(), kind=kind)
        elif not np.all(x[fixed] == lb[fixed]):
            out.fail("C01.a.fixed", "%s received a point whose fixed variables are not at their value" % where,
                     x=x.tolist())
        if np.any((x == lb) | (x == ub)):
            on_bound = True
    if t.result is not None:
        x = np.asarray(t.result.x, float)
        out.label("status%d" % t.result.status)
        if x.shape != (b.n,):
            out.fail("C01.a.shape", "res.x has shape %s" % (x.shape,))
        elif not (np.all(x >= lb) and np.all(x <= ub)):
            out.fail("C01.a.res", "res.x is outside the bounds by %.3g"
                     % float(np.max(np.maximum(lb - x, x - ub))), x=x.tolist())
        elif not np.all(x[fixed] == lb[fixed]):
            out.fail("C01.a.fixed", "res.x does not carry the fixed values", x=x.tolist())
    # (b) by construction: the solver-space trial point is inside the solver-space box
    pb = t.pb
    kinds = set()
    run_mag = None
    for rec in t.evals:
        kinds.add(rec["kind"])
        out.label("eval:" + rec["kind"])
        xa, xl, xu = rec["x_arg"], rec["xl"], rec["xu"]
        if xa.shape != xl.shape:
            continue
        tol = 16 * S.EPS * np.maximum(1.0, np.maximum(np.abs(xa), np.maximum(
            np.where(np.isfinite(xl), np.abs(xl), 0.0), np.where(np.isfinite(xu), np.abs(xu), 0.0))))
        # the trial point is x_from + step: a step that goes exactly to a bound from a far-away centre
        # (|x_from| >> |bound|) lands within one ulp of |x_from| of it, not of the bound
        # ... and the next centres inherit that offset, so the magnitude is the largest one seen so far in the run
        xf = rec.get("x_from")
        if xf is not None and np.shape(xf) == xa.shape and np.all(np.isfinite(xf)):
            run_mag = np.abs(xf) if run_mag is None or run_mag.shape != xa.shape else np.maximum(run_mag, np.abs(xf))
        if run_mag is not None and run_mag.shape == xa.shape:
            tol = np.maximum(tol, 16 * S.EPS * run_mag)
        excess = np.maximum(xl - xa, xa - xu)
        if np.any(excess > tol):
            out.fail("C01.b." + rec["kind"], "the %s trial point leaves the box by %.3g before projection "
                     "(the value is recorded for the unprojected point)" % (rec["kind"], float(np.max(excess))),
                     kind=rec["kind"], excess=float(np.max(excess)))
        out.ratio("excess/tol:" + rec["kind"], float(np.max(excess / tol)) if excess.size else 0.0)
        xuser = rec.get("x")
        if xuser is not None and pb is not None and hasattr(pb, "_scaling_factor") and xuser.shape == (b.n,):
            free = ~pb._fixed_idx
            img = xa * pb._scaling_factor + pb._scaling_shift
            tol2 = 16 * S.EPS * np.maximum(1.0, np.abs(xa) * np.abs(pb._scaling_factor) + np.abs(pb._scaling_shift))
            tol2 = np.maximum(tol2, tol * np.abs(pb._scaling_factor))  # same history-dependent magnitude as above
            moved = np.abs(xuser[free] - img)
            if np.any(moved > tol2) and not np.any(excess > tol):
                out.fail("C01.b.image", "the user-space point differs from the affine image of the trial "
                         "point by %.3g" % float(np.max(moved)), kind=rec["kind"])
    for k in ("soc", "geo"):
        if k in kinds:
            out.label("run-with-" + k)
    x0 = np.asarray(b.x0, float)
    x0_out = bool(np.any(x0 < lb) or np.any(x0 > ub))
    if x0_out:
        out.label("x0-outside")
    if bool(b.options.get("scale")):
        out.label("scale")
    if np.any(fixed):
        out.label("fixed")
    if (on_bound and np.any(np.isfinite(lb) | np.isfinite(ub))) or x0_out:
        out.nontrivial = True
        out.sample = e2e.summarize(spec, t)
    return out


SIGNATURES = {}
