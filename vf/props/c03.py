"""C03 - the returned point is the best point evaluated, feasible points first."""
import math

import numpy as np
from hypothesis import strategies as st
from hypothesis.stateful import RuleBasedStateMachine, initialize, invariant, rule
from scipy.optimize import Bounds, NonlinearConstraint

from .. import e2e
from .. import spec as S
from ..engine import Outcome, dec, enc

ID = "C03"
RULE = (
    "component level: rule-based state machine feeding a real cobyqa.problem.Problem scripted (objective, "
    "constraint value) pairs drawn from small pools that force exact ties, values equal to feasibility_tol, NaN, "
    "+inf, -inf, with filter_size in {1,2,3,5,unbounded}; after every feed best_eval(penalty) is compared for "
    "several penalties in {0, 2^-20, 1, 1e3, 1e12} with a reference selection over the full log (unbounded "
    "filter) or over a reference model of the retained set (finite filter). End to end: generated minimize "
    "calls with store_history=True; (res.fun, res.maxcv) must be the reference selection over the run's own "
    "(fun_history, maxcv_history) under the final penalty. Non-trivial = history with a NaN followed by a "
    "defined value, or an exact tie, or an eviction, or penalty 0 with only infeasible points; end to end: at "
    "least one feasible and one infeasible evaluation; distinct = distinct history / spec hash"
)
ASSUMPTIONS = [
    "reference rule: if a fully defined pair with violation <= feasibility_tol exists -> least objective among "
    "those, ties to least violation; else least objective + penalty*violation over fully defined pairs with "
    "finite violation, ties to least violation then least objective; values (fun, maxcv) are compared, not the "
    "identity of x, since two evaluations with identical values are equally good; when no fully defined pair "
    "exists only 'the answer is a fed pair' is required (documented fallbacks, permissive on purpose)",
    "finite filter: reference model = non-dominated pairs in insertion order (a defined value dominates NaN), "
    "oldest evicted beyond filter_size",
    "end-to-end clause trusts the solver's own per-evaluation pairs (fun_history, maxcv_history), whose truth "
    "is C05's subject",
]

TOL = 0.5
POOL_F = [-2.0, -1.0, 0.0, 1.0, 1.0, 1.0 - 2.0 ** -35, 2.0, float("nan"), float("inf"), float("-inf")]
# (0.5 +- 2^-35 and 3 - 2^-33: violations that differ by 1e-10 relative are different violations)
POOL_V = [-1.0, 0.0, 0.25, 0.5, 0.5, 0.5 - 2.0 ** -35, 0.5 + 2.0 ** -35, 0.75, 1.0, 3.0, 3.0 - 2.0 ** -33,
          float("nan"), float("inf")]
PENALTIES = [0.0, 2.0 ** -20, 1.0, 1e3, 1e12]
BIG = 10 ** 9


def isn(x):
    return isinstance(x, float) and math.isnan(x)


def same(a, b):
    return (isn(a) and isn(b)) or a == b


def ref_select(pairs, penalty, tol):
    """Set of acceptable (fun, maxcv) value pairs, or None when only the permissive rule applies.

    When the merit arithmetic leaves the finite range (objective -inf, or penalty*violation
    overflowing) 'least merit' is not defined; the statement's fallback then applies: any fully
    defined pair that no evaluated pair dominates is acceptable."""
    full = [(f, c) for f, c in pairs if not isn(f) and not isn(c)]
    if not full:
        return None
    feas = [(f, c) for f, c in full if c <= tol]
    if feas:
        fm = min(f for f, c in feas)
        cm = min(c for f, c in feas if f == fm)
        return {(fm, cm)}
    fin = [(f, c) for f, c in full if math.isfinite(c)]
    if not fin:
        fm = min(f for f, c in full)
        return {(f, c) for f, c in full if f == fm}
    mer = [(f + penalty * c, f, c) for f, c in fin]
    if any(not math.isfinite(m) for m, f, c in mer):
        return {(f, c) for f, c in fin
                if not any((g <= f and d <= c) and (g < f or d < c) for g, d in fin)}
    mm = min(m for m, f, c in mer)
    cand = [(f, c) for m, f, c in mer if m == mm]
    cm = min(c for f, c in cand)
    cand = [(f, c) for f, c in cand if c == cm]
    fm = min(f for f, c in cand)
    return {(fm, cm)}


def model_filter(pairs, fs):
    """Reference model of the retained set: non-dominated pairs, FIFO beyond fs."""
    ret = []
    evicted = False
    for f, c in pairs:
        fn, cn = isn(f), isn(c)
        if fn and cn:
            inc = len(ret) == 0
        elif fn:
            inc = all((isn(rf) and c < rc) or isn(rc) for rf, rc in ret)
        elif cn:
            inc = all((isn(rc) and f < rf) or isn(rf) for rf, rc in ret)
        else:
            inc = all(f < rf or c < rc or isn(rf) or isn(rc) for rf, rc in ret)
        if inc:
            if fn:
                ret = [(rf, rc) for rf, rc in ret if not isn(rf)]
            elif cn:
                ret = [(rf, rc) for rf, rc in ret if not isn(rc)]
            else:
                ret = [(rf, rc) for rf, rc in ret if not (isn(rf) or isn(rc) or (f <= rf and c <= rc))]
            ret.append((f, c))
            if len(ret) > fs:
                ret.pop(0)
                evicted = True
    return ret, evicted


def make_problem(filter_size, F, V):
    from cobyqa.problem import (BoundConstraints, LinearConstraints, NonlinearConstraints,
                                ObjectiveFunction, Problem)

    obj = ObjectiveFunction(lambda x: F[int(x[0])], False, False)
    nl = NonlinearConstraints([NonlinearConstraint(lambda x: V[int(x[0])], -np.inf, 0.0)], False, False)
    return Problem(obj, [0.0], BoundConstraints(Bounds([-np.inf], [np.inf])), LinearConstraints([], 1, False),
                   nl, None, TOL, False, False, 1, filter_size, False)


class Driver:
    """The history interpreter shared by the state machine and by replay."""

    def __init__(self, init):
        self.fs = init["filter_size"]
        self.F, self.V = [], []
        self.pb = make_problem(self.fs, self.F, self.V)
        self.pairs = []
        self.out = Outcome()
        self.flags = set()

    def feed(self, f, v, pens):
        f, v = float(f), float(v)
        t = len(self.F)
        self.F.append(f)
        self.V.append(v)
        try:
            with np.errstate(all="ignore"):
                self.pb(np.array([float(t)]))
        except Exception as exc:
            self.out.fail("C03.exc", "feeding the evaluation (%r, %r) raised %s: %s" % (f, v, type(exc).__name__, exc))
            self.pairs.append((f, float("nan") if isn(v) else max(v, 0.0)))
            return
        cv = float("nan") if isn(v) else max(v, 0.0)
        if not isn(f) and not isn(cv) and any(isn(a) or isn(b) for a, b in self.pairs):
            self.flags.add("nan-then-defined")
        if any(same(a, f) and same(b, cv) for a, b in self.pairs) or any(
                (a == f) != (b == cv) for a, b in self.pairs):
            self.flags.add("tie")
        self.pairs.append((f, cv))
        if self.fs >= BIG:
            universe, evicted = self.pairs, False
        else:
            universe, evicted = model_filter(self.pairs, self.fs)
        if evicted:
            self.flags.add("eviction")
        for pen in pens:
            try:
                with np.errstate(all="ignore"):
                    x, bf, bc = self.pb.best_eval(pen)
            except Exception as exc:
                self.out.fail("C03.exc", "best_eval(%g) raised %s: %s; history %r"
                              % (pen, type(exc).__name__, exc, [(a, b) for a, b in self.pairs][-8:]))
                continue
            bf, bc = float(bf), float(bc)
            i = int(x[0])
            if not (0 <= i < len(self.pairs) and same(self.F[i], bf) and same(self.pairs[i][1], bc)):
                self.out.fail("C03.triple", "best_eval returned (x=%r, fun=%r, maxcv=%r), which is not a fed "
                              "evaluation" % (x.tolist(), bf, bc))
                continue
            acc = ref_select(universe, pen, TOL)
            if acc is None:
                self.out.label("permissive")
                continue
            if pen == 0.0 and not any(c <= TOL for f_, c in universe if not isn(c) and not isn(f_)):
                self.flags.add("penalty0-infeasible")
            if not any(same(bf, a) and same(bc, c) for a, c in acc):
                nanret = isn(bf) or isn(bc)
                clause = "C03.nan" if nanret else ("C03.sel" if self.fs >= BIG else "C03.sel.finite")
                self.out.fail(clause, "filter_size=%s penalty=%g: best_eval returned (fun=%r, maxcv=%r) but the "
                              "best evaluated pair is %r; history %r"
                              % ("unbounded" if self.fs >= BIG else self.fs, pen, bf, bc, sorted(acc),
                                 [(a, b) for a, b in self.pairs][-8:]), fs=self.fs, penalty=pen)

    def finish(self):
        self.out.nontrivial = bool(self.flags)
        for fl in self.flags:
            self.out.label(fl)
        self.out.label("fs=%s" % ("inf" if self.fs >= BIG else self.fs))
        self.out.sample = {"filter_size": self.fs, "pairs": enc([list(p) for p in self.pairs])}


class FilterMachine(RuleBasedStateMachine):
    def __init__(self):
        super().__init__()
        self.ops = []
        self.init_spec = None
        self.drv = None
        self.out = Outcome()

    @initialize(fs=st.sampled_from([1, 2, 3, 5, BIG, BIG]))
    def setup(self, fs):
        self.init_spec = {"filter_size": fs}
        self.drv = Driver(self.init_spec)
        self.drv.out = self.out

    @rule(f=st.sampled_from(POOL_F), v=st.sampled_from(POOL_V),
          pens=st.lists(st.sampled_from(PENALTIES), min_size=1, max_size=3, unique=True))
    def feed(self, f, v, pens):
        self.drv.out = self.out
        self.ops.append(enc(["feed", f, v, pens]))
        self.drv.feed(f, v, pens)

    @invariant()
    def report(self):
        if self.drv is not None:
            type(self)._vf_hook(self, False)

    def teardown(self):
        if self.drv is not None:
            self.drv.out = self.out
            self.drv.finish()
            type(self)._vf_hook(self, True)


def replay_ops(name, init, ops):
    drv = Driver(init)
    for op in dec(ops):
        drv.feed(op[1], op[2], op[3])
    drv.finish()
    return drv.out


def machines(tier):
    return [("filter", FilterMachine, 0.6, 30 if tier == "quick" else 50)]


GIVEN_SHARE = 0.4

PROFILE = dict(
    ns=[(1, 3), (2, 5), (3, 2)],
    obj_kinds=[("quad", 5), ("lin", 3), ("abs", 1), ("rosen", 1), ("noisy", 1), ("const", 1)],
    max_lin=2, max_nl=2, faults=45, maxfev=(2, 60), opt_prob=25, callback_prob=0, scale_prob=20,
    infeasible_prob=35, debug_prob=0,
)


def budget(tier):
    return 8000 if tier == "quick" else 300000


# constraints active at the starting point, a tiny initial radius and a feasibility tolerance of zero (or
# tiny): the first evaluations violate the constraints by 1e-12 .. 1e-8, which must count as infeasible
TIGHT = dict(PROFILE, slacks=[0.0], infeasible_prob=0, x0_pats=[("ref", 3), ("in", 1)], faults=10, max_lin=2, max_nl=1, scale_prob=0,
             limit_pats=[("le", 3), ("ge", 3), ("two", 1), ("eq", 1)], maxfev=(3, 25))


@st.composite
def strategy_e2e(draw):
    fam = draw(st.integers(0, 7))
    if fam == 1:
        sp = dec(draw(S.problems(TIGHT)))
        sp["options"]["feasibility_tol"] = draw(st.sampled_from([0.0, 0.0, 1e-12, 1e-10]))
        sp["options"]["radius_init"] = draw(st.sampled_from([1e-12, 1e-9, 1e-9, 1e-8]))
        sp["options"].pop("radius_final", None)
    else:
        sp = dec(draw(S.nan_split_problems(PROFILE) if fam == 0 else S.problems(PROFILE)))
    sp["options"]["store_history"] = True
    sp["options"].pop("history_size", None)
    sp["options"].pop("filter_size", None)
    if draw(st.integers(0, 3)) == 0:
        # a short history must not change which point is returned (the filter is still unbounded); the
        # reference selection then ranges over the full history of the twin run without history_size
        sp["options"]["history_size"] = draw(st.sampled_from([1, 2, 3]))
    return enc(sp)


def strategy(tier):
    return strategy_e2e()


def run_case(spec):
    out = Outcome()
    b, t = e2e.run(spec)
    if t.exc is not None:
        out.label("crash:%s@%s" % (t.exc[0], t.exc[2]))
        return out
    r = t.result
    if not hasattr(r, "fun_history") or t.final_penalty is None or len(r.fun_history) == 0:
        out.label("no-history")
        return out
    tol = float(b.options.get("feasibility_tol", math.sqrt(S.EPS)))
    pairs = [(float(f), float(c)) for f, c in zip(r.fun_history, r.maxcv_history)]
    fun, maxcv = float(r.fun), float(r.maxcv)
    sp = dec(spec)
    if "history_size" in sp["options"]:
        out.label("short-history")
        sp2 = dict(sp, options={k: v for k, v in sp["options"].items() if k != "history_size"})
        b2, t2 = e2e.run(enc(sp2))
        r2 = t2.result
        if t2.exc is not None or not hasattr(r2, "fun_history"):
            out.label("twin-crash")
            return out
        if not (same(fun, float(r2.fun)) and same(maxcv, float(r2.maxcv)) and int(r.nfev) == int(r2.nfev)
                and int(r.status) == int(r2.status) and e2e.same(np.asarray(r.x, float), np.asarray(r2.x, float))):
            out.fail("C03.e2e.histsize", "with history_size=%r the run returns (fun=%r, maxcv=%r, nfev=%d, status=%d), "
                     "without it (fun=%r, maxcv=%r, nfev=%d, status=%d): the length of the stored history changed "
                     "which point is returned although the filter is unbounded in both runs"
                     % (sp["options"]["history_size"], fun, maxcv, int(r.nfev), int(r.status), float(r2.fun),
                        float(r2.maxcv), int(r2.nfev), int(r2.status)))
            return out
        pairs = [(float(f), float(c)) for f, c in zip(r2.fun_history, r2.maxcv_history)]
    pen = float(t.final_penalty)
    out.label("status%d" % r.status)
    if not any(same(fun, f) and same(maxcv, c) for f, c in pairs):
        out.fail("C03.e2e.triple", "(res.fun, res.maxcv)=(%r, %r) is not one of the run's evaluations" % (fun, maxcv))
        return out
    # "the returned point is the best point evaluated": res.x must be the very point whose evaluation
    # produced the returned pair (the history is in evaluation order, one entry per evaluated point)
    pts = e2e.eval_points(b, t)
    if len(pts) == len(pairs):
        xr = np.asarray(r.x, float)
        if not any(same(fun, f) and same(maxcv, c) and e2e.same(p_["x"], xr) for p_, (f, c) in zip(pts, pairs)):
            where = [i for i, p_ in enumerate(pts) if e2e.same(p_["x"], xr)]
            out.fail("C03.e2e.point", "res.x=%r is not the evaluated point that produced (res.fun, res.maxcv)=(%r, %r): "
                     "it was evaluated at %r with %r" % (xr.tolist(), fun, maxcv, where, [pairs[i] for i in where][:3]),
                     status=int(r.status))
    else:
        out.label("history-length-differs")
    acc = ref_select(pairs, pen, tol)
    if acc is None:
        out.label("permissive")
    elif not any(same(fun, a) and same(maxcv, c) for a, c in acc):
        clause = "C03.e2e.nan" if (isn(fun) or isn(maxcv)) else "C03.e2e.sel"
        out.fail(clause, "returned (fun=%r, maxcv=%r) with final penalty %g, but the best evaluated pair is %r "
                 "(feasibility_tol %g, %d evaluations)" % (fun, maxcv, pen, sorted(acc), tol, len(pairs)),
                 penalty=pen, status=int(r.status))
    feas = [c <= tol for f, c in pairs if not isn(c)]
    if any(feas) and not all(feas):
        out.nontrivial = True
        out.sample = e2e.summarize(spec, t)
    if any(isn(f) or isn(c) for f, c in pairs):
        out.label("nan-in-history")
    return out


SIGNATURES = {}
