"""C11 - minimize is deterministic, leaves its arguments untouched and is re-entrant."""
import copy
import sys
import threading
import warnings
from concurrent.futures import ThreadPoolExecutor

import numpy as np
from hypothesis import strategies as st

from .. import e2e
from .. import spec as S
from ..engine import Outcome, dec, enc

ID = "C11"
RULE = (
    "cases = (mode, 1..K problem specs, schedule): (repeat) the same call three times in one process; (immut) "
    "deep snapshots of x0, bounds, constraint arrays and attributes, dict constraints, args, options and constants "
    "before/after, also with read-only NumPy arrays; (nest) an objective that itself calls minimize at one of its "
    "evaluations; (user) K = 2..4 (quick) / 2..16 (thorough) calls on K threads where every user-function call is "
    "a yield point and a Hypothesis-drawn choice sequence decides which thread runs next, some calls sharing the "
    "same bounds / linear-constraint / options objects; (line) the same with preemption after drawn numbers of "
    "line events inside cobyqa/ (sys.settrace), which reaches the inside of build_system / solve_systems / "
    "Problem.__call__; (free) a free-running ThreadPoolExecutor with switch interval 1e-6. Every call's result "
    "and evaluation log must be bit-identical to its stand-alone sequential run. Non-trivial = at least two "
    "calls interleaved with at least 5 context switches, or nested, or sharing an object, or an argument "
    "snapshot with at least one constraint object; distinct = distinct spec hash"
)
ASSUMPTIONS = [
    "schedules are owned by the harness at user-call and at line granularity inside cobyqa/ and are a pure "
    "function of the drawn choice sequence; interleavings inside one bytecode or inside NumPy/LAPACK calls that "
    "release the GIL are reached only by the free-running mode, which is not reproducible by seed",
    "calls that share objects share bounds, LinearConstraint objects and the options dict (plain data); user "
    "functions are per call, so that each call's evaluation log stays attributable",
]

PROFILE = dict(
    ns=[(1, 2), (2, 5), (3, 3)],
    obj_kinds=[("quad", 5), ("lin", 2), ("rosen", 2), ("abs", 1), ("none", 1)],
    max_lin=2, max_nl=2, nl_forms=[("NC", 4), ("dict", 1)], faults=10, maxfev=(4, 25), opt_prob=25,
    callback_prob=30, stop_prob=15, scale_prob=30, infeasible_prob=15, debug_prob=5, all_fixed=2,
)
MODES = [("repeat", 2), ("immut", 3), ("nest", 2), ("user", 4), ("line", 3), ("free", 1)]


def budget(tier):
    return 1100 if tier == "quick" else 40000


@st.composite
def strategy_c11(draw, kmax):
    mode = draw(S.wsample(MODES))
    k = 1 if mode in ("repeat", "immut") else 2 if mode == "nest" else draw(st.integers(2, kmax))
    # several threads often run the *same* problem (identical interpolation sets at the same stage are what
    # a shared cache would confuse), others run different ones
    ncalls = 1 if k == 1 else 2 if mode == "nest" else draw(st.integers(1, min(k, 3)))
    calls = [draw(S.problems(PROFILE)) for _ in range(ncalls)]
    idx = [0, 1] if mode == "nest" else [draw(st.integers(0, ncalls - 1)) for _ in range(k)]
    if draw(st.integers(0, 4)) == 0:
        # calls without any options (the documented defaults, incl. maxfev = 500 n): small smooth problems
        # that converge quickly, some with a box narrower than twice the default initial radius
        prof = dict(PROFILE, ns=[(1, 2), (2, 3)], obj_kinds=[("quad", 1)], max_lin=1, max_nl=0, faults=0,
                    callback_prob=0, bound_pats=[("free", 2), ("two", 3), ("narrow", 2), ("lower", 1)])
        calls = []
        for _ in range(ncalls):
            sp = dec(draw(S.problems(prof)))
            q = np.array(sp["obj"]["Q"], float)
            sp["obj"]["Q"] = (q + (1.0 + abs(float(np.min(np.linalg.eigvalsh(q))))) * np.eye(sp["n"])).tolist()
            sp["options"] = {}
            sp["pass_options"] = False
            calls.append(enc(sp))
    return {"mode": mode, "calls": calls, "idx": idx, "share": draw(st.booleans()),
            "choices": draw(st.lists(st.integers(0, 15), min_size=8, max_size=48)),
            "quanta": draw(st.lists(st.integers(1, 400), min_size=4, max_size=32)),
            "readonly": draw(st.booleans()), "nest_at": draw(st.integers(0, 6))}


def strategy(tier):
    return strategy_c11(4 if tier == "quick" else 16)


def call(b):
    import cobyqa

    kw = e2e.make_kwargs(b)
    with np.errstate(all="ignore"):
        try:
            r = cobyqa.minimize(b.fun, b.x0, **kw)
            return ("ok", fingerprint(r))
        except BaseException as exc:  # noqa
            if isinstance(exc, (KeyboardInterrupt, SystemExit)):
                raise
            return ("exc", type(exc).__name__)


def fingerprint(r):
    fp = [int(r.status), int(r.nfev), int(r.nit), np.asarray(r.x, float).tobytes(), np.float64(r.fun).tobytes(),
          np.float64(r.maxcv).tobytes(), bool(r.success), str(r.message)]
    if hasattr(r, "fun_history"):
        fp.append(np.asarray(r.fun_history, float).tobytes())
        fp.append(np.asarray(r.maxcv_history, float).tobytes())
    return tuple(fp)


def logprint(b):
    out = []
    for seq, kind, idx, x, val in b.log.events:
        v = val if kind != "cb" else (val[0] if val else None)
        out.append((kind, idx, np.asarray(x, float).tobytes(),
                    None if v is None else np.asarray(v, float).tobytes()))
    return out


def standalone(spec):
    b = S.build(spec)
    res = call(b)
    return res, logprint(b)


class Scheduler:
    """Exactly one worker runs at a time; control is handed over at yield points according to a
    drawn choice sequence."""

    def __init__(self, k, choices):
        self.sems = [threading.Semaphore(0) for _ in range(k)]
        self.alive = [True] * k
        self.choices = list(choices) or [0]
        self.pos = 0
        self.switches = 0

    def pick(self, me):
        cand = [i for i, a in enumerate(self.alive) if a]
        if not cand:
            return None
        c = self.choices[self.pos % len(self.choices)]
        self.pos += 1
        return cand[c % len(cand)]

    def yield_point(self, me):
        nxt = self.pick(me)
        if nxt is None or nxt == me:
            return
        self.switches += 1
        self.sems[nxt].release()
        self.sems[me].acquire()

    def finish(self, me):
        self.alive[me] = False
        nxt = self.pick(me)
        if nxt is not None:
            self.switches += 1
            self.sems[nxt].release()


def snapshot(b):
    snap = {"x0": copy.deepcopy(b.x0) if isinstance(b.x0, list) else np.array(b.x0, copy=True)}
    if b.bounds is not None:
        if isinstance(b.bounds, np.ndarray):
            snap["bounds"] = b.bounds.copy()
        else:
            snap["bounds"] = (np.array(b.bounds.lb, copy=True), np.array(b.bounds.ub, copy=True),
                              copy.deepcopy(b.bounds.keep_feasible))
    cons = b.constraints if isinstance(b.constraints, (list, tuple)) else [b.constraints]
    snap["ncons"] = len(cons)
    cs = []
    for c in cons:
        if isinstance(c, dict):
            cs.append(("dict", sorted(c.keys()), c["type"], id(c["fun"]), copy.deepcopy(c.get("args"))))
        elif hasattr(c, "A"):
            cs.append(("lin", np.array(c.A, copy=True), np.array(c.lb, copy=True), np.array(c.ub, copy=True)))
        else:
            cs.append(("nl", id(c.fun), np.array(c.lb, copy=True), np.array(c.ub, copy=True), repr(c.jac),
                       repr(c.hess), sorted(vars(c).keys())))
    snap["cons"] = cs
    snap["options"] = copy.deepcopy(b.options)
    snap["constants"] = copy.deepcopy(b.constants)
    snap["args"] = copy.deepcopy(getattr(b, "args", ()))
    return snap


def same_snapshot(a, b):
    def eq(u, v):
        if isinstance(u, np.ndarray) or isinstance(v, np.ndarray):
            u, v = np.asarray(u), np.asarray(v)
            if u.shape != v.shape or u.dtype != v.dtype:
                return False
            if u.dtype.kind == "f":
                return bool(np.all((u == v) | (np.isnan(u) & np.isnan(v))))
            return bool(np.all(u == v))
        if isinstance(u, (list, tuple)) and isinstance(v, (list, tuple)):
            return type(u) == type(v) and len(u) == len(v) and all(eq(p, q) for p, q in zip(u, v))
        if isinstance(u, dict) and isinstance(v, dict):
            return list(u.keys()) == list(v.keys()) and all(eq(u[k], v[k]) for k in u)
        if isinstance(u, float) and isinstance(v, float) and u != u and v != v:
            return True
        return type(u) == type(v) and u == v
    for key in a:
        if not eq(a[key], b[key]):
            return key
    return None


def run_case(spec):
    out = Outcome()
    mode = spec["mode"]
    out.label("mode:" + mode)
    specs = [spec["calls"][i] for i in spec["idx"]]
    with warnings.catch_warnings():
        warnings.simplefilter("ignore")
        refs = [standalone(sp) for sp in spec["calls"]]
        refs = [refs[i] for i in spec["idx"]]
        if mode == "repeat":
            for rep in range(2):
                got = standalone(specs[0])
                if got != refs[0]:
                    out.fail("C11.repeat", "repeating the same call in one process gave a different %s"
                             % ("result" if got[0] != refs[0][0] else "evaluation sequence"))
                    break
            out.nontrivial = refs[0][0][0] == "ok" and refs[0][0][1][1] > 3
        elif mode == "immut":
            b = S.build(specs[0])
            if spec.get("readonly"):
                for arr in _arrays(b):
                    arr.flags.writeable = False
                out.label("readonly")
            before = snapshot(b)
            res = call(b)
            after = snapshot(b)
            diff = same_snapshot(before, after)
            if diff is not None:
                out.fail("C11.immut/" + diff, "minimize modified its argument %r" % diff)
            if spec.get("readonly") and res != refs[0][0]:
                out.fail("C11.readonly", "with read-only argument arrays the call gave %r instead of %r"
                         % (res[:1] + (res[1] if res[0] == "exc" else "...",), refs[0][0][0]))
            out.nontrivial = before["ncons"] >= 1
        elif mode == "nest":
            inner_ref = refs[1]
            holder = {}
            nest_at = spec["nest_at"]
            count = {"n": 0}

            def hook(kind):
                if kind == "obj":
                    if count["n"] == nest_at and "res" not in holder:
                        holder["res"] = standalone(specs[1])
                    count["n"] += 1

            b = S.build(specs[0], hook=hook)
            res = call(b)
            if (res, logprint(b)) != refs[0]:
                out.fail("C11.nest.outer", "an objective that calls minimize changed the outer run")
            if "res" in holder:
                if holder["res"] != inner_ref:
                    out.fail("C11.nest.inner", "a nested call of minimize differs from its stand-alone run")
                out.nontrivial = True
                out.label("nested")
        else:
            threaded(spec, specs, refs, out)
    if out.nontrivial:
        out.sample = {"mode": mode, "k": len(specs), "share": bool(spec.get("share"))}
    return out


def _arrays(b):
    arrs = []
    if isinstance(b.x0, np.ndarray):
        arrs.append(b.x0)
    if isinstance(b.bounds, np.ndarray):
        arrs.append(b.bounds)
    elif b.bounds is not None:
        arrs += [b.bounds.lb, b.bounds.ub]
    cons = b.constraints if isinstance(b.constraints, (list, tuple)) else [b.constraints]
    for c in cons:
        if hasattr(c, "A"):
            arrs += [a for a in (c.A, c.lb, c.ub) if isinstance(a, np.ndarray)]
        elif not isinstance(c, dict):
            arrs += [a for a in (c.lb, c.ub) if isinstance(a, np.ndarray)]
    return [a for a in arrs if isinstance(a, np.ndarray) and a.ndim >= 1]


def threaded(spec, specs, refs, out):
    mode = spec["mode"]
    k = len(specs)
    results = [None] * k
    builts = [None] * k
    sched = Scheduler(k, spec["choices"])
    quanta = list(spec["quanta"]) or [50]
    share = bool(spec.get("share"))

    def make(i):
        hook = None
        if mode == "user":
            hook = lambda kind, i=i: sched.yield_point(i)
        b = S.build(specs[i], hook=hook)
        return b

    for i in range(k):
        builts[i] = make(i)
    if share:
        # calls built from the same spec share their bounds, linear constraints and options objects
        first = {}
        for i in range(k):
            j = spec["idx"][i]
            if j in first:
                b0, b = builts[first[j]], builts[i]
                b.bounds = b0.bounds
                b.options = b0.options
                c0 = b0.constraints if isinstance(b0.constraints, (list, tuple)) else [b0.constraints]
                c1 = b.constraints if isinstance(b.constraints, (list, tuple)) else [b.constraints]
                merged = [a if hasattr(a, "A") else c for a, c in zip(c0, c1)]
                b.constraints = type(b.constraints)(merged) if isinstance(b.constraints, (list, tuple)) else merged[0]
                out.label("shared-objects")
            else:
                first[j] = i

    if mode == "free":
        old = sys.getswitchinterval()
        sys.setswitchinterval(1e-6)
        try:
            with ThreadPoolExecutor(max_workers=k) as ex:
                futs = [ex.submit(call, builts[i]) for i in range(k)]
                results = [f.result() for f in futs]
        finally:
            sys.setswitchinterval(old)
    else:
        def worker(i):
            sched.sems[i].acquire()
            budget = [quanta[i % len(quanta)]]
            qpos = [i]

            def tracer(frame, event, arg):
                if "/cobyqa/" not in frame.f_code.co_filename:
                    return None

                def local(frame, event, arg):
                    if event == "line":
                        budget[0] -= 1
                        if budget[0] <= 0:
                            qpos[0] += 1
                            budget[0] = quanta[qpos[0] % len(quanta)]
                            sched.yield_point(i)
                    return local
                return local

            if mode == "line":
                sys.settrace(tracer)
            try:
                results[i] = call(builts[i])
            finally:
                if mode == "line":
                    sys.settrace(None)
                sched.finish(i)

        threads = [threading.Thread(target=worker, args=(i,)) for i in range(k)]
        for th in threads:
            th.start()
        first = sched.pick(-1)
        sched.sems[first if first is not None else 0].release()
        for th in threads:
            th.join()
    for i in range(k):
        got = (results[i], logprint(builts[i]))
        if got != refs[i]:
            what = "result" if got[0] != refs[i][0] else "evaluation sequence"
            out.fail("C11.%s.%s" % (mode, what.split()[0]), "call %d of %d run %s gave a different %s than its "
                     "stand-alone run (%d context switches, shared objects: %s)"
                     % (i + 1, k, {"user": "under a user-call schedule", "line": "under a line-level schedule",
                                    "free": "on a free-running thread pool"}[mode], what, sched.switches, share),
                     noshrink=(mode == "free"))
            break
    out.label("k=%d" % k)
    if mode != "free":
        out.label("switches>=5" if sched.switches >= 5 else "switches<5")
    out.nontrivial = (mode == "free") or sched.switches >= 5 or share


SIGNATURES = {}
