"""C17 - two-sided user constraints are translated faithfully into the internal form."""
import itertools
import math

import numpy as np
from hypothesis import strategies as st
from scipy.optimize import Bounds, LinearConstraint, NonlinearConstraint

from ..engine import Outcome, dec, enc

ID = "C17"
EXHAUSTIVE = True
RULE = (
    "enumerated: every assignment of (lb, ub) from {-inf, a, b>a, nan} x {a, b, +inf, nan} (15 consistent "
    "patterns incl. lb=ub) to each of 1..2 components (quick) / 1..3 components (thorough) of one "
    "LinearConstraint, one NonlinearConstraint and one Bounds object, each evaluated on the full grid of "
    "function values {a-1, a, (a+b)/2, b, b+1} per component; generated (Hypothesis): 0..3 objects of each "
    "kind with 1..4 components, scalar-broadcast limits, NaN coefficients, random dyadic matrices and values, "
    "passed through minimize's own normalisation (_get_constraints) and a Problem with fixed variables / "
    "scaling. Non-trivial = an object mixing finite and infinite/NaN sides, or more than one object; "
    "distinct = distinct spec hash. The enumerated part is exhaustive for the stated lattice."
)
ASSUMPTIONS = [
    "oracle: largest internal violation max(max(a_ub x - b_ub), max|a_eq x - b_eq|, 0) resp. max(max c_ub, "
    "max|c_eq|, 0) equals max_i max(lb_i - v_i, v_i - ub_i, 0) with NaN limits read as infinite (exact on the "
    "lattice, 64*eps*magnitude for generated data); row counts follow the rule one-sided 1, two-sided 2, "
    "lb == ub one equality, unlimited 0",
    "the Problem-level clause compares minimize's reported maxcv at x0 (maxfev=1, constant objective) with the "
    "same interval violation",
]
A_, B_ = 0.5, 2.0
LBS = [-math.inf, A_, B_, math.nan]
UBS = [A_, B_, math.inf, math.nan]
PATTERNS = [(l, u) for l in LBS for u in UBS if not (l == B_ and u == A_)]
VALS = [A_ - 1.0, A_, 0.5 * (A_ + B_), B_, B_ + 1.0]
EPS = np.finfo(float).eps


def budget(tier):
    return 1500 if tier == "quick" else 60000


def enumerate_cases(tier):
    mmax = 2 if tier == "quick" else 3
    for kind in ("lin", "nl", "bounds"):
        for m in range(1, mmax + 1):
            for pats in itertools.product(range(len(PATTERNS)), repeat=m):
                yield {"enum": kind, "pats": list(pats)}


def interval_violation(vals, lo, hi):
    lo = np.where(np.isnan(lo), -np.inf, lo)
    hi = np.where(np.isnan(hi), np.inf, hi)
    with np.errstate(all="ignore"):
        low = np.where(lo > -np.inf, lo - vals, -np.inf)
        upp = np.where(hi < np.inf, vals - hi, -np.inf)
    return float(max(np.max(np.maximum(low, upp), initial=0.0), 0.0))


def expected_counts(lo, hi):
    """one-sided 1, two-sided 2, lb = ub *to rounding* one equality (the documented size- and
    magnitude-dependent tolerance 10*eps*m*max(1, |finite limits|)), unlimited 0"""
    fin = np.concatenate([lo[np.isfinite(lo)], hi[np.isfinite(hi)]])
    tol = 10.0 * EPS * max(lo.size, 1) * max(1.0, float(np.max(np.abs(fin), initial=1.0)))
    lo = np.where(np.isnan(lo), -np.inf, lo)
    hi = np.where(np.isnan(hi), np.inf, hi)
    with np.errstate(all="ignore"):
        eq = np.isfinite(lo) & np.isfinite(hi) & (np.abs(hi - lo) <= tol)
    n_ub = int(np.sum(~eq & np.isfinite(lo)) + np.sum(~eq & np.isfinite(hi)))
    return n_ub, int(np.sum(eq))


def internal_lin(lc, x):
    v = 0.0
    if lc.m_ub:
        v = max(v, float(np.max(lc.a_ub @ x - lc.b_ub)))
    if lc.m_eq:
        v = max(v, float(np.max(np.abs(lc.a_eq @ x - lc.b_eq))))
    return v


def internal_nl(cub, ceq):
    v = 0.0
    if cub.size:
        v = max(v, float(np.max(cub)))
    if ceq.size:
        v = max(v, float(np.max(np.abs(ceq))))
    return v


def run_enum(spec, out):
    from cobyqa.problem import BoundConstraints, LinearConstraints, NonlinearConstraints

    kind = spec["enum"]
    pats = [PATTERNS[i] for i in spec["pats"]]
    m = len(pats)
    lo = np.array([p[0] for p in pats], float)
    hi = np.array([p[1] for p in pats], float)
    mixed = len({(math.isfinite(l), math.isfinite(u)) for l, u in pats}) > 1 or any(
        math.isfinite(l) != math.isfinite(u) for l, u in pats)
    out.nontrivial = mixed
    out.label("enum:" + kind, "m=%d" % m)
    if kind == "bounds":
        bc = BoundConstraints(Bounds(lo, hi))
        xl = np.where(np.isnan(lo), -np.inf, lo)
        xu = np.where(np.isnan(hi), np.inf, hi)
        if not (np.array_equal(bc.xl, xl) and np.array_equal(bc.xu, xu)):
            out.fail("C17.bounds.sanitise", "NaN sides not turned into infinite bounds: %r %r" % (bc.xl, bc.xu))
        if not bc.is_feasible:
            out.fail("C17.bounds.feasible", "consistent bounds reported infeasible: %r %r" % (lo, hi))
        if bc.m != int(np.sum(np.isfinite(xl)) + np.sum(np.isfinite(xu))):
            out.fail("C17.bounds.count", "bound count %d for %r %r" % (bc.m, lo, hi))
        for vals in itertools.product(VALS, repeat=m):
            x = np.array(vals)
            p = bc.project(x)
            if not np.array_equal(p, np.clip(x, xl, xu)):
                out.fail("C17.bounds.project", "project(%r) = %r for bounds %r %r" % (x, p, lo, hi))
                break
            if bc.maxcv(p) != 0.0:
                out.fail("C17.bounds.maxcv", "maxcv of a projected point is %r" % (bc.maxcv(p),))
                break
        return
    n_ub, n_eq = expected_counts(lo, hi)
    if kind == "lin":
        lc = LinearConstraints([LinearConstraint(np.eye(m), lo, hi)], m, False)
        if (lc.m_ub, lc.m_eq) != (n_ub, n_eq):
            out.fail("C17.lin.rows", "limits %r %r give %d inequality and %d equality rows, expected %d and %d"
                     % (lo.tolist(), hi.tolist(), lc.m_ub, lc.m_eq, n_ub, n_eq))
            return
        for vals in itertools.product(VALS, repeat=m):
            x = np.array(vals)
            got, want = internal_lin(lc, x), interval_violation(x, lo, hi)
            if got != want:
                out.fail("C17.lin.value", "limits %r %r, values %r: largest internal violation %r, interval "
                         "violation %r" % (lo.tolist(), hi.tolist(), list(vals), got, want))
                return
    else:
        for vals in itertools.product(VALS, repeat=m):
            v = np.array(vals)
            nlc = NonlinearConstraints([NonlinearConstraint(lambda x, v=v: v.copy(), lo, hi)], False, False)
            cub, ceq = nlc(np.zeros(2))
            if (cub.size, ceq.size) != (n_ub, n_eq):
                out.fail("C17.nl.rows", "limits %r %r give %d inequality and %d equality components, expected %d "
                         "and %d" % (lo.tolist(), hi.tolist(), cub.size, ceq.size, n_ub, n_eq))
                return
            got, want = internal_nl(cub, ceq), interval_violation(v, lo, hi)
            if got != want:
                out.fail("C17.nl.value", "limits %r %r, values %r: largest internal violation %r, interval "
                         "violation %r" % (lo.tolist(), hi.tolist(), list(vals), got, want))
                return
            if (nlc.m_ub, nlc.m_eq) != (n_ub, n_eq):
                out.fail("C17.nl.count", "m_ub/m_eq = %d/%d after the first call, expected %d/%d"
                         % (nlc.m_ub, nlc.m_eq, n_ub, n_eq))
                return


# ---------------------------------------------------------------------------------------------
# generated part


def dyv():
    return st.integers(-32, 32).map(lambda k: k / 8)


@st.composite
def limits(draw, m):
    lo, hi = [], []
    for _ in range(m):
        pat = draw(st.sampled_from(["le", "ge", "two", "eq", "free", "nanl", "nanu", "nannan", "neareq", "narrow"]))
        a = draw(dyv())
        w = draw(st.sampled_from([0.125, 0.5, 1.0, 3.0]))
        l, u = {"le": (-math.inf, a), "ge": (a, math.inf), "two": (a, a + w), "eq": (a, a), "free": (-math.inf, math.inf),
                "nanl": (math.nan, a), "nanu": (a, math.nan), "nannan": (math.nan, math.nan),
                "neareq": (a, float(np.nextafter(a, math.inf))),
                # distinct limits, millions of ulps apart but close in everyday terms: still two inequalities
                "narrow": (a, a + draw(st.sampled_from([2.0 ** -30, 2.0 ** -24, 2.0 ** -17])))}[pat]
        lo.append(l)
        hi.append(u)
    return lo, hi


@st.composite
def strategy_gen(draw):
    n = draw(st.integers(1, 4))
    objs = []
    for _ in range(draw(st.integers(0, 3))):
        m = draw(st.integers(1, 4))
        lo, hi = draw(limits(m))
        A = [[draw(st.sampled_from([-2.0, -1.0, 0.0, 1.0, 2.0, 0.5, math.nan] if draw(st.integers(0, 9)) == 0
                                   else [-2.0, -1.0, 0.0, 1.0, 2.0, 0.5])) for _ in range(n)] for _ in range(m)]
        o = {"kind": "lin", "A": A, "lb": lo, "ub": hi}
        if len(set(map(str, lo))) == 1 and draw(st.booleans()):
            o["lb_scalar"] = True
        if len(set(map(str, hi))) == 1 and draw(st.booleans()):
            o["ub_scalar"] = True
        objs.append(o)
    for _ in range(draw(st.integers(0, 3))):
        m = draw(st.integers(1, 4))
        lo, hi = draw(limits(m))
        o = {"kind": "nl", "vals": [draw(st.one_of(dyv(), st.sampled_from([l for l in lo + hi if math.isfinite(l)] or [0.0])))
                                    for _ in range(m)], "lb": lo, "ub": hi}
        if len(set(map(str, lo))) == 1 and draw(st.booleans()):
            o["lb_scalar"] = True
        if len(set(map(str, hi))) == 1 and draw(st.booleans()):
            o["ub_scalar"] = True
        if m == 1 and draw(st.booleans()):
            o["scalar"] = True
        objs.append(o)
    order = draw(st.permutations(list(range(len(objs)))))
    objs = [objs[i] for i in order]
    x = [draw(dyv()) for _ in range(n)]
    blo, bhi = [], []
    # one case in three has a finite box in every variable (possibly with fixed ones), so that scale=True
    # takes effect: the internal form is then stated in scaled variables and must still be faithful;
    # the boxes are not centred at x and their half-widths are not 1
    allbox = draw(st.integers(0, 2)) == 0
    for i in range(n):
        pat = draw(st.sampled_from(["two", "two", "two", "fixed"] if allbox else ["free", "free", "two", "fixed", "lower", "nan"]))
        if pat == "free":
            blo.append(-math.inf); bhi.append(math.inf)
        elif pat == "two" and allbox:
            blo.append(x[i] - draw(st.sampled_from([0.0, 0.25, 0.5, 1.0, 1.5, 3.0])))
            bhi.append(x[i] + draw(st.sampled_from([0.25, 0.5, 1.0, 2.0, 5.0])))
        elif pat == "two":
            blo.append(x[i] - 1.0); bhi.append(x[i] + 1.0)
        elif pat == "fixed":
            blo.append(x[i]); bhi.append(x[i])
        elif pat == "lower":
            blo.append(x[i] - 0.5); bhi.append(math.inf)
        else:
            blo.append(math.nan); bhi.append(x[i] + 2.0)
    return enc({"n": n, "objs": objs, "x": x, "blo": blo, "bhi": bhi, "scale": draw(st.booleans())})


def strategy(tier):
    return strategy_gen()


def run_gen(spec, out):
    import warnings
    from cobyqa import minimize
    from cobyqa.main import _get_constraints
    from cobyqa.problem import LinearConstraints, NonlinearConstraints

    spec = dec(spec)
    n = spec["n"]
    x = np.array(spec["x"], float)
    cons, want = [], 0.0
    stated = []
    tol = 0.0
    exp_ub = exp_eq = 0
    for o in spec["objs"]:
        lo, hi = np.array(o["lb"], float), np.array(o["ub"], float)
        l_arg = float(lo[0]) if o.get("lb_scalar") else lo
        u_arg = float(hi[0]) if o.get("ub_scalar") else hi
        if o["kind"] == "lin":
            A = np.array(o["A"], float).reshape(-1, n)
            cons.append(LinearConstraint(A, l_arg, u_arg))
            A0 = np.where(np.isnan(A), 0.0, A)
            vals = A0 @ x
            tol = max(tol, float(np.max(np.abs(A0) @ np.abs(x) + np.where(np.isfinite(lo), np.abs(lo), 0)
                                        + np.where(np.isfinite(hi), np.abs(hi), 0) + 1.0)))
        else:
            v = np.array(o["vals"], float)
            if o.get("scalar"):
                cons.append(NonlinearConstraint(lambda z, v=v: float(v[0]), l_arg, u_arg))
            else:
                cons.append(NonlinearConstraint(lambda z, v=v: v.copy(), l_arg, u_arg))
            vals = v
        want = max(want, interval_violation(vals, lo, hi))
        stated.append((A0 if o["kind"] == "lin" else None, vals, lo, hi))
        a, b = expected_counts(lo, hi)
        exp_ub += a
        exp_eq += b
    lin, nl = _get_constraints(cons)
    lc = LinearConstraints(lin, n, False)
    nlc = NonlinearConstraints(nl, False, False)
    cub, ceq = nlc(x)
    got = max(internal_lin(lc, x), internal_nl(cub, ceq))
    if (lc.m_ub + cub.size, lc.m_eq + ceq.size) != (exp_ub, exp_eq):
        out.fail("C17.gen.rows", "internal form has %d inequality / %d equality rows, expected %d / %d"
                 % (lc.m_ub + cub.size, lc.m_eq + ceq.size, exp_ub, exp_eq))
        return
    t = 64 * EPS * (tol + abs(want) + 1.0)
    if abs(got - want) > t:
        out.fail("C17.gen.value", "largest internal violation %r, interval violation %r" % (got, want))
        return
    # Problem level: the reported maxcv at x0 (x inside its bounds by construction)
    with warnings.catch_warnings():
        warnings.simplefilter("ignore")
        try:
            r = minimize(lambda z: 0.0, x, bounds=Bounds(np.array(spec["blo"], float), np.array(spec["bhi"], float)),
                         constraints=cons, options={"maxfev": 1, "scale": bool(spec["scale"]), "radius_init": 2.0 ** -7})
        except Exception as exc:
            out.label("crash:" + type(exc).__name__)
            return
    if not np.array_equal(r.x, x) and np.all(np.isfinite(r.x)):
        # the starting point was moved (onto / away from a bound): the reported value belongs to r.x
        xr = np.asarray(r.x, float)
        want = 0.0
        for A0, vals, lo, hi in stated:
            if A0 is not None:
                vals = A0 @ xr
                tol = max(tol, float(np.max(np.abs(A0) @ np.abs(xr) + 1.0)))
            want = max(want, interval_violation(vals, lo, hi))
        out.label("x0-moved")
    if np.all(np.isfinite(r.x)):
        t2 = 256 * EPS * (tol * 4 + abs(want) + 1.0)
        if not (abs(float(r.maxcv) - want) <= t2):
            out.fail("C17.problem", "minimize reports maxcv=%r at x0 but the interval violation is %r (scale=%s)"
                     % (float(r.maxcv), want, spec["scale"]))
        blo_, bhi_ = np.array(spec["blo"], float), np.array(spec["bhi"], float)
        if spec["scale"] and bool(np.all(np.isfinite(blo_) & np.isfinite(bhi_))) and bool(np.any(blo_ < bhi_)):
            out.label("scale-effective")
    out.nontrivial = len(spec["objs"]) > 1 or any(
        len({(math.isfinite(l), math.isfinite(u)) for l, u in zip(o["lb"], o["ub"])}) > 1 for o in spec["objs"])
    out.label("gen", "objs=%d" % len(spec["objs"]))


def run_case(spec):
    out = Outcome()
    if "enum" in spec:
        run_enum(spec, out)
    else:
        run_gen(spec, out)
    return out


SIGNATURES = {}
