"""C09 - stopping requests take effect at the very evaluation that triggers them."""
import copy
import math

import numpy as np
from hypothesis import strategies as st

from .. import e2e
from .. import spec as S
from ..engine import Outcome, dec, enc

ID = "C09"
RULE = (
    "cases = (base problem, request plan): a dry run of the base problem without stopping requests yields the "
    "per-evaluation (objective, true violation, step kind) log; the plan then selects a trigger position (first "
    "point / inside the initial sampling / a trust-region step / a second-order-correction step / a geometry "
    "step / last evaluation) and derives the request that first becomes true there: a target between that "
    "evaluation's value and the previous feasible minimum (or exactly equal to it), a callback stopping at that "
    "call, a feasibility tolerance making it the first feasible point (fun=None), or two requests at once; "
    "non-trivial = a request was triggered at an evaluation other than the first one; distinct = distinct spec hash"
)
ASSUMPTIONS = [
    "domain: consistent bounds with at least one free variable (the all-fixed / inconsistent-bounds exits make "
    "a single evaluation and are judged by C07/C08); |target| <= 1e20 (values beyond the 2^100 barrier are "
    "compared after clipping)",
    "the oracle recomputes the first triggering evaluation i* from the real run's own logged raw values and the "
    "harness-side true violation; cases in which a violation lies within rounding (256*eps*magnitude) of "
    "feasibility_tol are skipped as undecidable; the dry run only guides generation",
]

PROFILE = dict(
    ns=[(1, 3), (2, 5), (3, 3)],
    bound_pats=[("free", 3), ("lower", 2), ("upper", 2), ("two", 4), ("fixed", 1), ("narrow", 1)],
    obj_kinds=[("quad", 5), ("lin", 3), ("abs", 1), ("rosen", 1), ("noisy", 1), ("none", 4)],
    max_lin=2, max_nl=2, nl_forms=[("NC", 4), ("dict", 1)], faults=10, maxfev=(1, 45), opt_prob=25,
    callback_prob=0, scale_prob=30, infeasible_prob=10, debug_prob=5,
)


def budget(tier):
    return 2500 if tier == "quick" else 100000


@st.composite
def strategy_c09(draw):
    pos = draw(S.wsample([("first", 1), ("init", 2), ("tr", 3), ("soc", 4), ("geo", 3), ("last", 1)]))
    prof = PROFILE
    if pos == "soc":
        # second-order-correction steps need nonlinear constraints and a few iterations
        prof = dict(PROFILE, **S.SOC_PRONE)
    base = draw(S.problems(prof))
    tight = draw(st.integers(0, 7)) == 0
    if tight:
        # constraints active at the starting point, a tiny initial radius and feasibility_tol = 0 (or tiny):
        # evaluations violated by 1e-12 .. 1e-8 do not satisfy a request
        from ..engine import dec as _dec, enc as _enc
        from .c03 import TIGHT
        # (x0 exactly on the constraints, or outside by 2^-34 .. 2^-27)
        sp = _dec(draw(S.problems(dict(TIGHT, callback_prob=0, target_prob=0,
                                       slacks=[0.0, -2.0 ** -34, -2.0 ** -30, -2.0 ** -27]))))
        sp["options"]["feasibility_tol"] = draw(st.sampled_from([0.0, 0.0, 1e-12, 1e-10]))
        sp["options"]["radius_init"] = draw(st.sampled_from([1e-12, 1e-9, 1e-9, 1e-8]))
        sp["options"].pop("radius_final", None)
        base = _enc(sp)
    plan = {
        "req": "target" if tight else draw(S.wsample([("target", 4), ("callback", 3), ("feas", 3), ("both", 2),
                                                       ("none", 1)])),
        "pos": pos,
        "which": draw(st.integers(0, 50)),
        "exact": draw(st.booleans()),
        "cbform": draw(st.sampled_from(["pos", "kw", "obj_pos", "partial_kw"])),
        # the evaluation budget ends exactly at the triggering evaluation (the request must win)
        "tight_budget": draw(st.integers(0, 3)) == 0,
        # both thresholds exactly at the values of one evaluation: feasibility_tol equal to its violation and
        # the target equal to its objective value (requests are satisfied with equality)
        "exact_tol": draw(st.integers(0, 2)) == 0,
    }
    if tight and draw(st.booleans()):
        # a target that every objective value meets: the run must stop at the first *feasible* evaluation
        plan["fixed_target"] = 2.0 ** 40
    return {"base": base, "plan": plan}


def strategy(tier):
    return strategy_c09()


def evaluate_log(b, t):
    """Per evaluation: (fun raw or None, true violation, tolerance, kind)."""
    rows = []
    for rec in t.evals:
        if rec.get("x") is None or any(v is None for v in rec["nl"]):
            rows.append(None)
            continue
        tv, tol = S.true_violation(b, rec["x"], rec["nl"])
        rows.append((rec["fun"], tv, 256 * S.EPS * tol, rec["kind"]))
    return rows


def exact_plan(rows, k, out):
    """Thresholds placed exactly at the values of one evaluation at or after the k-th:
    (feasibility_tol = its violation, target = its objective value), or None."""
    cand = [(i + 1, f, tv) for i, (f, tv, tl, kind) in enumerate(rows)
            if i + 1 >= k and f is not None and math.isfinite(f) and abs(f) <= 1e20
            and not math.isnan(tv) and tv <= 1e20]
    # prefer an evaluation preceded by a more violated point with a lower objective value: there the
    # feasible-first rule decides what is returned
    pref = [c for c in cand if any(r_[0] is not None and not math.isnan(r_[0]) and not math.isnan(r_[1])
                                   and r_[1] > c[2] and r_[0] < c[1] for r_ in rows[:c[0] - 1])]
    if pref:
        cand = pref
        out.label("exact-tol:lower-infeasible-before")
    if not cand:
        return None
    return float(cand[0][2]), float(cand[0][1])


def run_case(spec):
    out = Outcome()
    base = dec(copy.deepcopy(spec["base"]))
    plan = spec["plan"]
    lb = np.array(base["lb"], float)
    ub = np.array(base["ub"], float)
    lbn = np.where(np.isnan(lb), -np.inf, lb)
    ubn = np.where(np.isnan(ub), np.inf, ub)
    if np.all(lbn == ubn) or np.any(lbn > ubn):
        out.label("out-of-domain")
        return out
    fun_none = base["obj"]["kind"] == "none"
    base["options"].pop("target", None)
    base["callback"] = {"form": "none"}
    dry = copy.deepcopy(base)
    tol0 = float(base["options"].get("feasibility_tol", math.sqrt(S.EPS)))
    if fun_none:
        dry["options"]["feasibility_tol"] = -1.0
    bd, td = e2e.run(enc(dry))
    if td.exc is not None:
        out.label("crash-dry:%s@%s" % (td.exc[0], td.exc[2]))
        return out
    rows = evaluate_log(bd, td)
    if not rows or any(r is None for r in rows):
        out.label("dry-incomplete")
        return out
    N0 = len(rows)
    # candidate positions of the requested kind
    want = plan["pos"]
    if want == "first":
        cands = [1]
    elif want == "last":
        cands = [N0]
    else:
        cands = [i + 1 for i, r in enumerate(rows) if r[3] == want]
        if want == "init":
            cands = [k for k in cands if k > 1]
    if not cands:
        cands = list(range(1, N0 + 1))
        out.label("pos-fallback:" + want)
    k = cands[plan["which"] % len(cands)]
    real = copy.deepcopy(base)
    req = plan["req"]
    if fun_none and req in ("target", "both"):
        req = "feas"
    if not fun_none and req == "feas":
        req = "target"
    stop_k = None
    chosen = None
    if req in ("callback", "both"):
        stop_k = k
        real["callback"] = {"form": plan["cbform"], "stop_at": k}
    if req in ("target", "both"):
        # first record-setting feasible evaluation at or after k
        best = math.inf
        chosen = None
        for i, (f, tv, tl, kind) in enumerate(rows):
            feas = (not math.isnan(tv)) and tv <= tol0
            fin = f is not None and not math.isnan(f)
            if feas and fin and f < best:
                if i + 1 >= k and chosen is None and abs(f) <= 1e20:
                    chosen = (i + 1, f, best)
                    break
                best = f
        if plan.get("exact_tol") and not fun_none:
            ep = exact_plan(rows, k, out)
            if ep is not None:
                tol0, f = ep
                real["options"]["feasibility_tol"] = tol0
                real["options"]["target"] = f
                chosen = None
                for i, (f2, tv2, tl2, kind2) in enumerate(rows):
                    if f2 is not None and not math.isnan(f2) and not math.isnan(tv2) and tv2 <= tol0 and f2 <= f:
                        chosen = (i + 1, f2, math.inf)
                        break
                out.label("exact-tol")
            else:
                out.label("no-exact-tol-candidate")
        elif chosen is not None:
            i1, f, prev = chosen
            if plan["exact"] or not math.isfinite(prev) or abs(f + 0.5 * (prev - f)) > 1e20:
                real["options"]["target"] = f
            else:
                real["options"]["target"] = f + 0.5 * (prev - f)
        else:
            out.label("no-target-candidate")
    if req == "feas":
        best = math.inf
        chosen = None
        for i, (f, tv, tl, kind) in enumerate(rows):
            if math.isnan(tv):
                continue
            if tv < best:
                if i + 1 >= k and chosen is None:
                    chosen = (i + 1, tv, best)
                    break
                best = tv
        if chosen is not None:
            i1, tv, prev = chosen
            ftol = tv if (plan["exact"] or not math.isfinite(prev)) else tv + 0.5 * (prev - tv)
            if ftol > 1e20:
                # stated domain, as for targets: thresholds beyond 1e20 are not generated (the solver compares
                # barrier-clipped values, |v| <= 2^100, so a tolerance of 5e299 cannot tell 1e300 from 9)
                ftol = tv if tv <= 1e20 else None
            if ftol is None:
                chosen = None
                out.label("feas-tol-beyond-domain")
            else:
                real["options"]["feasibility_tol"] = ftol
        else:
            out.label("no-feas-candidate")
    if plan.get("fixed_target") is not None and not fun_none:
        real["options"]["target"] = float(plan["fixed_target"])
        chosen = None
        out.label("fixed-target")
    out.label("req:" + req, "pos:" + want)
    if plan.get("tight_budget"):
        # maxfev = index of the first evaluation expected to trigger (from the dry run)
        kk = None
        if req in ("callback", "both"):
            kk = stop_k
        if chosen is not None and req != "callback":
            kk = chosen[0] if kk is None else min(kk, chosen[0])
        if kk is not None:
            real["options"]["maxfev"] = int(kk)
            out.label("tight-budget")

    b, t = e2e.run(enc(real))
    if t.exc is not None:
        out.label("crash:%s@%s" % (t.exc[0], t.exc[2]))
        return out
    r = t.result
    rows = evaluate_log(b, t)
    if any(x is None for x in rows):
        out.label("incomplete-log")
        return out
    N = len(rows)
    tol = float(b.options.get("feasibility_tol", math.sqrt(S.EPS)))
    target = float(b.options.get("target", -np.inf))
    # requests true at each evaluation
    events = []
    undec = False
    for i, (f, tv, tl, kind) in enumerate(rows):
        ev = set()
        feas = (not math.isnan(tv)) and tv <= tol
        if not math.isnan(tv) and abs(tv - tol) <= tl and (tv != tol or tl > 0 and (b.lin or b.options.get('scale'))):
            # the solver computes the violation along another floating-point path
            undec = True
        if b.fun is None:
            if feas:
                ev.add(4)
        if feas and f is not None and not math.isnan(f) and max(min(f, e2e.BARRIER), -e2e.BARRIER) <= target:
            ev.add(1)
        if b.fun is None and feas and 0.0 <= target:
            ev.add(1)
        if stop_k is not None and i + 1 == stop_k:
            ev.add(3)
        events.append(ev)
    if undec:
        out.undecidable += 1
        out.label("undecidable")
        return out
    first = next((i + 1 for i, ev in enumerate(events) if ev), None)
    st_ = int(r.status)
    out.label("status%d" % st_)
    if first is not None:
        kind = rows[first - 1][3]
        out.label("trigger@" + kind)
        if N != first:
            out.fail("C09.after", "a stopping request (%s) was satisfied at evaluation %d (%s step) but %d "
                     "evaluations were made" % (sorted(events[first - 1]), first, kind, N),
                     first=first, N=N, kind=kind)
        elif int(r.nfev) != first:
            out.fail("C09.nfev", "the run stopped at evaluation %d but reports nfev=%d" % (first, r.nfev))
        elif st_ not in events[first - 1]:
            out.fail("C09.status", "request(s) %s satisfied at the last evaluation %d (%s step) but status is %d"
                     % (sorted(events[first - 1]), first, kind, st_), status=st_, kind=kind)
        else:
            fun, maxcv = float(r.fun), float(r.maxcv)
            if st_ == 1 and not (fun <= target and maxcv <= tol):
                out.fail("C09.point", "status 1 but the returned point has fun=%r > target=%r or maxcv=%r > tol"
                         % (fun, target, maxcv))
            if st_ == 4 and not (maxcv <= tol):
                out.fail("C09.point", "status 4 but the returned point has maxcv=%r > tol=%r" % (maxcv, tol))
        if first > 1:
            out.nontrivial = True
            out.sample = {"plan": plan, "trigger": first, "kind": kind, "events": sorted(events[first - 1]),
                          "result": e2e.summarize(None, t).get("result")}
    else:
        if st_ in (1, 3, 4):
            out.fail("C09.converse", "status %d although no stopping request was satisfied at any of the %d "
                     "evaluations" % (st_, N), status=st_)
    if first is not None and N == first and st_ in (1, 3, 4) and st_ not in events[N - 1]:
        pass  # already reported by C09.status
    return out


SIGNATURES = {}
