"""C14 - determinant ratios used to choose and rate interpolation points are correct."""
from .. import models_machine as MM

ID = "C14"
RULE = (
    "stateful: the same machine as C12/C13 (real Models, replace / shift / reset histories, near-degenerate "
    "replacements); before every replacement Models.determinants(x, k) and determinants(x) (all indices) are "
    "compared with det(W_new)/det(W_old) computed by exact rational elimination on the harness-built KKT "
    "matrices; for sets of at most 6 points every index is compared. Non-trivial = at least one comparison "
    "with |ratio| in [1e-6, 1e6] on a set that has been through a replacement; distinct = distinct history"
)
ASSUMPTIONS = [
    "tolerance 1e4*eps*kappa*M: kappa = condition number of the balanced interpolation matrix a = S W S "
    "(comparisons are made for kappa < 1e13); M = first-order sensitivity of the updating formula sigma = "
    "alpha*beta + tau^2 to a relative error eps*kappa *in norm* of the two balanced solves: |S_kk| |a^-1 S e_k| "
    "(|d|^4/2 + |w'W^-1 w|) + |alpha| |S w| |a^-1 S w| + 2 |tau| |S_kk| |a^-1 S w| + |alpha|(|d|^4/2 + |w'W^-1 w|) "
    "+ tau^2, estimated in floats by the harness (for a nearly degenerate set the k-th components alpha, tau are "
    "tiny next to the solutions they are read from). Two tighter empirical bounds (eps*sqrt(kappa)*M and a "
    "component-wise eps*kappa*Mcw) are reported as ratios only: they have no error analysis behind them and "
    "an anisotropic set showed a legitimate norm-wise rounding error beyond them (DESIGN.md 8.4)",
]


def budget(tier):
    return 960 if tier == "quick" else 25000


def machines(tier):
    return [("models", MM.make_machine({"C14"}, 3 if tier == "quick" else 4, neardeg=(0, 0, 0, 4, 7, 10, 13, 20, 30, -24)), 1.0,
             12 if tier == "quick" else 30)]


def replay_ops(name, init, ops):
    return MM.replay({"C14"}, init, ops)


SIGNATURES = {}
