"""C10 - equivalent statements of a problem are solved identically."""
import copy
import math

import numpy as np
from hypothesis import strategies as st

from .. import e2e
from .. import spec as S
from ..engine import Outcome, dec, enc

ID = "C10"
RULE = (
    "cases = (base problem with dyadic data, restatement kind): (fixed) variables fixed by equal bounds "
    "eliminated by hand (closures over the fixed values, reduced x0 / bounds / A[:,free], b - A[:,fixed] v); "
    "(array) Bounds object vs (n,2) array; (dict) dict vs NonlinearConstraint(fun, 0, inf|0); (split) one "
    "two-sided constraint object vs the two one-sided objects in the order the internal form produces; "
    "(splitlin) the same for LinearConstraint objects; (merge) consecutive one-sided constraint objects merged "
    "into one vector-valued object; (order) linear and nonlinear objects interleaved differently in the list; "
    "(scale) scale=True "
    "vs the explicitly rescaled unit-box problem (power-of-two half-widths, dyadic centres). Both statements "
    "are run and compared. Component clause (lin): for the Problem built from the statement, the internal "
    "linear residuals at random solver-space points equal the user-space residuals at build_x(point). "
    "Non-trivial = the run leaves the initial sampling and the restatement actually changes the call; "
    "distinct = distinct spec hash"
)
ASSUMPTIONS = [
    "dyadic data make the harness-side restatement arithmetic exact, so the sequences of evaluated points "
    "(mapped through the restatement) and (status, nfev, nit, x, fun) are compared bitwise and maxcv within "
    "256*eps*magnitudes",
    "the order in which the internal form lists rows (per object: lower-limit part then upper-limit part for "
    "nonlinear constraints; upper then lower for linear ones; equalities apart) is taken from C17's rule, "
    "and only restatements that preserve that order are generated",
    "scale restatement: linear coefficients are non-zero (the sign of a zero coefficient differs between the "
    "two statements and perturbs the trial points at the 1e-16 level, which is rounding, not a different problem)",
]

BASE = dict(
    ns=[(2, 5), (3, 4), (4, 1)], decimal_prob=0,
    obj_kinds=[("quad", 5), ("lin", 2), ("rosen", 1), ("abs", 1)],
    max_lin=2, max_nl=2, faults=0, maxfev=(8, 45), opt_prob=20, callback_prob=0, scale_prob=0,
    infeasible_prob=15, debug_prob=0, nl_forms=[("NC", 1)], dict_family=0,
    limit_pats=[("le", 4), ("ge", 3), ("two", 4), ("eq", 2), ("free", 1)],
)
KINDS = ["fixed", "array", "dict", "split", "splitlin", "merge", "order", "scale", "lin", "sharefun", "forms", "nanlim"]


def budget(tier):
    return 2400 if tier == "quick" else 100000


@st.composite
def strategy_c10(draw):
    kind = draw(st.sampled_from(KINDS))
    prof = dict(BASE)
    if kind in ("fixed", "lin"):
        prof["bound_pats"] = [("free", 2), ("lower", 2), ("upper", 1), ("two", 3), ("fixed", 4)]
        if draw(st.integers(0, 2)) == 0:
            # fixed variables together with scale=True (scaling needs finite bounds on the other variables)
            prof["bound_pats"] = [("two", 3), ("fixed", 2)]
            prof["scale_prob"] = 70
    if kind in ("fixed", "scale"):
        # End-to-end bitwise comparison of these two restatements is made on problems without linear
        # constraints: with them the two statements hold numerically identical internal matrices, but
        # built along different NumPy paths (matrix product vs. column selection), whose memory layout
        # changes the summation order of A @ x by one ulp; under a large penalty or in an exact merit tie
        # that flips the choice of the best interpolation point and the runs legitimately part ways.
        # The linear part of these restatements is decided by the component clause (kind "lin") and by
        # C02's end-to-end maxcv clause.
        prof["max_lin"] = 0
    if kind == "scale":
        prof["bound_pats"] = [("two", 1)]
        prof["x0_pats"] = [("in", 4), ("lb", 1), ("ub", 1), ("below", 1), ("above", 1)]
        # no zero coefficients: cobyqa scales the already negated rows by a matrix product, which
        # turns -0.0 into +0.0, whereas the explicitly rescaled statement is negated afterwards; the
        # sign of a zero changes the rounding of the QR factorisations (1e-16 on the trial points)
        prof["lin_entries"] = [-2, -1, 1, 2]
    if kind == "dict":
        prof["nl_forms"] = [("dict", 1)]
        prof["min_nl"] = 1
    if kind in ("split", "merge"):
        prof["min_nl"] = 1 if kind == "split" else 2
        prof["max_nl"] = 3
        prof["limit_pats"] = ([("two", 3), ("le", 2), ("ge", 1)] if kind == "split"
                              else [("le", 4), ("eq", 3), ("ge", 2), ("two", 1)])
    if kind == "sharefun":
        prof.update(min_nl=2, max_nl=3, nl_forms=[("NC", 1)], faults=0, mutate_prob=0,
                    limit_pats=[("two", 4), ("le", 2), ("ge", 1)])
    if kind == "splitlin":
        prof["max_lin"] = 3
        prof["limit_pats"] = [("two", 4), ("le", 2), ("ge", 2)]
    if kind == "order":
        prof["max_lin"] = 2
        prof["min_nl"] = 1
    if kind == "lin":
        prof["max_lin"] = 3
        prof["scale_prob"] = 50
        prof["limit_pats"] = [("le", 3), ("ge", 3), ("two", 4), ("eq", 3), ("free", 1), ("nanl", 1), ("nanu", 1)]
    if kind == "forms":
        prof["max_lin"] = 3
        prof["bound_pats"] = [("free", 2), ("lower", 2), ("upper", 1), ("two", 4), ("fixed", 1)]
    if kind == "nanlim":
        # undefined entries are neutralised: a NaN limit (or bound) means no limit on that side - the
        # statement with NaN and the one with -inf / +inf in its place are the same problem
        prof["max_lin"] = 3
        prof["min_nl"] = 0
        prof["bound_pats"] = [("free", 2), ("lower", 1), ("upper", 1), ("two", 3), ("nanl", 3), ("nanu", 3)]
        prof["limit_pats"] = [("le", 2), ("ge", 2), ("two", 3), ("eq", 1), ("nanl", 4), ("nanu", 4)]
    base = draw(S.problems(prof))
    out = {"kind": kind, "base": base, "probe": [draw(st.integers(-64, 64)) for _ in range(12)]}
    if kind == "forms":
        # the same data handed over in other array-like forms (sequences, integer / single-precision arrays,
        # a 1-D coefficient array for a single row, Bounds built from lists or with keep_feasible)
        out["forms"] = {"x0": draw(st.sampled_from(["tuple", "int", "f32", "array", "list"])),
                        "bounds": draw(st.sampled_from(["pairs", "lists", "Bounds_kf", "Bounds_list", "array"])),
                        "A": [draw(st.sampled_from(["list", "int", "1d", "float"])) for _ in range(3)],
                        "limits": [draw(st.sampled_from(["list", "array"])) for _ in range(3)]}
    return out


def strategy(tier):
    return strategy_c10()


# ---------------------------------------------------------------------------------------------
# restatements: base spec -> (spec_a, spec_b, changed?)


def restate(kind, base, forms=None):
    base = copy.deepcopy(base)
    # normalise the call order first: linear objects 0.., nonlinear objects 50..
    lin = sorted(range(len(base["lin"])), key=lambda i: (base["lin"][i].get("pos", 0), i))
    base["lin"] = [base["lin"][i] for i in lin]
    for r, L in enumerate(base["lin"]):
        L["pos"] = r
    nl = sorted(range(len(base["nl"])), key=lambda i: (base["nl"][i].get("pos", 100 + i), i))
    base["nl"] = [base["nl"][i] for i in nl]
    for r, N in enumerate(base["nl"]):
        N["pos"] = 50 + r
    a = copy.deepcopy(base)
    b = copy.deepcopy(base)
    n = a["n"]
    lb = np.array(a["lb"], float)
    ub = np.array(a["ub"], float)
    if kind == "array":
        a["bounds_form"], b["bounds_form"] = "Bounds", "array"
        return a, b, True
    if kind == "nanlim":
        changed = False

        def clean(v, repl):
            nonlocal changed
            out_ = []
            for t in v:
                if isinstance(t, float) and math.isnan(t):
                    out_.append(repl)
                    changed = True
                else:
                    out_.append(t)
            return out_
        b["lb"], b["ub"] = clean(b["lb"], -math.inf), clean(b["ub"], math.inf)
        for Lb in b["lin"]:
            Lb["lb"], Lb["ub"] = clean(Lb["lb"], -math.inf), clean(Lb["ub"], math.inf)
        for Nb in b["nl"]:
            if "lb" in Nb:
                Nb["lb"], Nb["ub"] = clean(Nb["lb"], -math.inf), clean(Nb["ub"], math.inf)
        # (NaN coefficients are left to C17 / C02: cobyqa turns them into +0.0 after negating the rows, the
        # restated zeros become -0.0, and the sign of a zero changes the rounding of the factorisations)
        return a, b, changed
    if kind == "forms":
        a["bounds_form"], a["x0_form"] = "Bounds", "array"
        for L in a["lin"]:
            L.pop("A_form", None)
            L.pop("limits_form", None)
        b["bounds_form"], b["x0_form"] = forms["bounds"], forms["x0"]
        for i, L in enumerate(b["lin"]):
            L["A_form"] = forms["A"][i % 3]
            L["limits_form"] = forms["limits"][i % 3]
        return a, b, True
    if kind == "dict":
        changed = False
        for N in b["nl"]:
            if N.get("form") == "dict":
                m = len(N["comps"])
                N["form"] = "NC"
                N["lb"] = [0.0] * m
                N["ub"] = [0.0] * m if N["type"] == "eq" else [math.inf] * m
                N.pop("type")
                changed = True
        return a, b, changed
    if kind == "fixed":
        fixed = lb == ub
        if not fixed.any() or fixed.all():
            return a, b, False
        free = ~fixed
        vals = lb[fixed]
        b["n"] = int(free.sum())
        b["x0"] = list(np.array(a["x0"], float)[free])
        b["lb"] = list(lb[free])
        b["ub"] = list(ub[free])
        b["lift"] = {"kind": "fixed", "mask": fixed.tolist(), "vals": vals.tolist()}
        for L in b["lin"]:
            A = np.array(L["A"], float).reshape(-1, n)
            off = A[:, fixed] @ vals
            L["A"] = A[:, free].tolist()
            L["lb"] = list(np.array(L["lb"], float) - off)
            L["ub"] = list(np.array(L["ub"], float) - off)
            L.pop("lb_scalar", None)
            L.pop("ub_scalar", None)
        return a, b, True
    if kind == "scale":
        if not (np.all(np.isfinite(lb)) and np.all(np.isfinite(ub)) and np.all(lb < ub)):
            return a, b, False
        half = 0.5 * (ub - lb)
        shift = 0.5 * (ub + lb)
        m, e = np.frexp(half)
        if not np.all(m == 0.5):  # power-of-two half-widths only
            return a, b, False
        a["options"]["scale"] = True
        b["options"].pop("scale", None)
        x0 = np.clip(np.array(a["x0"], float), lb, ub)
        b["x0"] = list((x0 - shift) / half)
        b["lb"] = [-1.0] * n
        b["ub"] = [1.0] * n
        b["lift"] = {"kind": "affine", "factor": half.tolist(), "shift": shift.tolist(), "lb": lb.tolist(),
                     "ub": ub.tolist()}
        for L in b["lin"]:
            A = np.array(L["A"], float).reshape(-1, n)
            off = A @ shift
            L["A"] = (A * half[np.newaxis, :]).tolist()
            L["lb"] = list(np.array(L["lb"], float) - off)
            L["ub"] = list(np.array(L["ub"], float) - off)
            L.pop("lb_scalar", None)
            L.pop("ub_scalar", None)
        return a, b, True
    if kind == "split":
        new = []
        changed = False
        for i, N in enumerate(b["nl"]):
            lo = np.array(N["lb"], float)
            hi = np.array(N["ub"], float)
            two = np.isfinite(lo) & np.isfinite(hi) & (lo < hi)
            if two.any() and not np.any(lo == hi):
                n1 = copy.deepcopy(N)
                n2 = copy.deepcopy(N)
                n1["ub"] = [math.inf] * len(lo)
                n2["lb"] = [-math.inf] * len(lo)
                for q in (n1, n2):
                    q.pop("lb_scalar", None)
                    q.pop("ub_scalar", None)
                    q["fault_name"] = "nl%d" % i
                new.extend([n1, n2])
                changed = True
            else:
                N["fault_name"] = "nl%d" % i
                new.append(N)
        b["nl"] = new
        for r, N in enumerate(b["nl"]):
            N["pos"] = 50 + r
        return a, b, changed
    if kind == "sharefun":
        # the two halves of a two-sided constraint listed apart, [f >= lo, <other constraints>, f <= hi]:
        # statement a gives each half its own (equal) function, statement b passes the very same function
        # object to both halves - which must not matter
        nl = a["nl"]
        if len(nl) < 2:
            return a, b, False
        N0 = nl[0]
        lo, hi = np.array(N0["lb"], float), np.array(N0["ub"], float)
        if not (np.all(np.isfinite(lo)) and np.all(np.isfinite(hi)) and np.all(lo < hi)) or N0.get("args") \
                or any(N.get("args") for N in nl):
            return a, b, False

        def halves(share):
            n1, n2 = copy.deepcopy(N0), copy.deepcopy(N0)
            n1["ub"] = [math.inf] * len(lo)
            n2["lb"] = [-math.inf] * len(lo)
            for q in (n1, n2):
                q.pop("lb_scalar", None)
                q.pop("ub_scalar", None)
            rest = [copy.deepcopy(N) for N in nl[1:]]
            out_ = [n1] + rest + [n2]
            if share:
                out_[-1]["share_with"] = 0
            for r, N in enumerate(out_):
                N["pos"] = 50 + r
            return out_
        a["nl"], b["nl"] = halves(False), halves(True)
        return a, b, True
    if kind == "splitlin":
        # a two-sided LinearConstraint vs the two one-sided ones, upper part first (the order of the
        # internal form: rows (A, ub) then (-A, -lb))
        new = []
        changed = False
        for L in b["lin"]:
            lo = np.array(L["lb"], float)
            hi = np.array(L["ub"], float)
            if np.any(np.isfinite(lo) & np.isfinite(hi) & (lo < hi)) and not np.any(lo == hi):
                l1, l2 = copy.deepcopy(L), copy.deepcopy(L)
                l1["lb"] = [-math.inf] * len(lo)
                l2["ub"] = [math.inf] * len(lo)
                for q in (l1, l2):
                    q.pop("lb_scalar", None)
                    q.pop("ub_scalar", None)
                new.extend([l1, l2])
                changed = True
            else:
                new.append(L)
        b["lin"] = new
        for r, L in enumerate(b["lin"]):
            L["pos"] = r
        return a, b, changed
    if kind == "order":
        # the same objects, linear and nonlinear ones interleaved differently in the list (the relative
        # order within each kind is kept)
        if not (b["lin"] and b["nl"]):
            return a, b, False
        for r, N in enumerate(b["nl"]):
            N["pos"] = r          # nonlinear objects first ...
        for r, L in enumerate(b["lin"]):
            L["pos"] = 50 + r     # ... then the linear ones
        return a, b, True
    if kind == "merge":
        # merge the first two nonlinear objects (in call order) when that keeps the order of the internal rows:
        # per object cobyqa lists the lower-side rows, then the upper-side rows, and the equalities apart, so
        # L1 U1 L2 U2 equals L1 L2 U1 U2 iff the first object has no upper-side row or the second no lower-side row
        nl = list(range(len(b["nl"])))
        if len(nl) < 2:
            return a, b, False
        i, j = nl[0], nl[1]
        N1, N2 = b["nl"][i], b["nl"][j]
        def sides(N):
            lo, hi = np.array(N["lb"], float), np.array(N["ub"], float)
            if np.any(np.isnan(lo)) or np.any(np.isnan(hi)) or N.get("args") or np.ndim(N["lb"]) == 0:
                return None
            ineq = lo != hi
            return bool(np.any(ineq & np.isfinite(lo))), bool(np.any(ineq & np.isfinite(hi)))
        s1, s2 = sides(N1), sides(N2)
        ok = s1 is not None and s2 is not None and (not s1[1] or not s2[0])
        if not ok:
            return a, b, False
        merged = {"comps": copy.deepcopy(N1["comps"]) + copy.deepcopy(N2["comps"]), "form": "NC",
                  "lb": list(N1["lb"]) + list(N2["lb"]), "ub": list(N1["ub"]) + list(N2["ub"])}
        rest = [copy.deepcopy(b["nl"][k]) for k in nl[2:]]
        b["nl"] = [merged] + rest
        for r, N in enumerate(b["nl"]):
            N["pos"] = 50 + r
        return a, b, True
    if kind == "lin":
        return a, b, True
    raise ValueError(kind)


def eval_seq(b, t):
    """User-space (lifted) evaluation points in order."""
    pts = []
    ev = b.log.events
    for e in ev:
        if e[1] == "obj":
            pts.append(b.log.lifted.get(e[0], e[3]))
    if b.fun is None:
        pts = [b.X(rec["x_full"]) for rec in t.evals]
    return pts


def lin_clause(spec, out):
    """Internal linear residuals vs user-space residuals at build_x(x)."""
    base = dec(copy.deepcopy(spec["base"]))
    base["options"]["maxfev"] = 1
    b, t = e2e.run(enc(base))
    if t.exc is not None or t.pb is None:
        out.label("crash:%s" % (t.exc[0] if t.exc else "nopb"))
        return
    pb = t.pb
    if not pb.bounds.is_feasible or pb.n == 0:
        out.label("lin:degenerate")
        return
    n = b.n
    # user rows in cobyqa's order: objects in call order; per object equality rows apart, inequality
    # rows as (A, ub) for all rows then (-A, -lb) for all rows; undefined / infinite limits dropped
    objs = sorted(range(len(base["lin"])), key=lambda i: (base["lin"][i].get("pos", 0), i))
    ub_rows, eq_rows = [], []
    from cobyqa.utils import get_arrays_tol
    for i in objs:
        L = base["lin"][i]
        A = np.array(L["A"], float).reshape(-1, n)
        A = np.where(np.isnan(A), 0.0, A)
        lo = np.broadcast_to(np.array(L["lb"], float), (A.shape[0],))
        hi = np.broadcast_to(np.array(L["ub"], float), (A.shape[0],))
        tol = get_arrays_tol(lo, hi)
        iseq = np.abs(hi - lo) <= tol
        for r in range(A.shape[0]):
            if iseq[r] and not math.isnan(0.5 * (lo[r] + hi[r])):
                eq_rows.append((A[r], 0.5 * (lo[r] + hi[r])))
        for r in range(A.shape[0]):
            if not iseq[r] and math.isfinite(hi[r]):
                ub_rows.append((A[r], hi[r]))
        for r in range(A.shape[0]):
            if not iseq[r] and math.isfinite(lo[r]):
                ub_rows.append((-A[r], -lo[r]))
    if pb.linear.a_ub.shape[0] != len(ub_rows) or pb.linear.a_eq.shape[0] != len(eq_rows):
        out.fail("C10.lin.rows", "internal linear form has %d inequality and %d equality rows, expected %d and %d"
                 % (pb.linear.a_ub.shape[0], pb.linear.a_eq.shape[0], len(ub_rows), len(eq_rows)))
        return
    xl, xu = pb.bounds.xl, pb.bounds.xu
    k = 0
    for trial in range(4):
        x = np.empty(pb.n)
        for i in range(pb.n):
            v = spec["probe"][(k) % len(spec["probe"])] / 16.0
            k += 1
            lo_, hi_ = xl[i], xu[i]
            if np.isfinite(lo_) and np.isfinite(hi_):
                x[i] = lo_ + (hi_ - lo_) * (v + 4.0) / 8.0
            elif np.isfinite(lo_):
                x[i] = lo_ + abs(v)
            elif np.isfinite(hi_):
                x[i] = hi_ - abs(v)
            else:
                x[i] = v
        xf = pb.build_x(x)
        for name, Aint, bint, rows in (("ub", pb.linear.a_ub, pb.linear.b_ub, ub_rows),
                                       ("eq", pb.linear.a_eq, pb.linear.b_eq, eq_rows)):
            rint = Aint @ x - bint
            for r, (arow, rhs) in enumerate(rows):
                ruser = arow @ xf - rhs
                mag = np.abs(arow) @ (np.abs(xf) + np.where(np.isfinite(b.lb), np.abs(b.lb), 0)
                                      + np.where(np.isfinite(b.ub), np.abs(b.ub), 0)) + abs(rhs) + 1.0
                tol = 256 * S.EPS * mag
                out.ratio("lin_resid_err/tol", abs(rint[r] - ruser) / tol)
                if abs(rint[r] - ruser) > tol:
                    out.fail("C10.lin." + name, "internal %s residual %r differs from the user's residual %r at the "
                             "corresponding point (row %d, scale=%s, %d fixed)"
                             % (name, float(rint[r]), float(ruser), r, bool(b.options.get("scale")),
                                int(np.sum(b.lb == b.ub))))
                    return
    nf = int(np.sum(b.lb == b.ub))
    if (nf or b.options.get("scale")) and (ub_rows or eq_rows):
        out.nontrivial = True
        out.sample = {"kind": "lin", "n": n, "fixed": nf, "rows": len(ub_rows) + len(eq_rows)}
    out.label("lin:checked")


def run_case(spec):
    out = Outcome()
    kind = spec["kind"]
    out.label("kind:" + kind)
    if kind == "lin":
        lin_clause(spec, out)
        return out
    base = dec(copy.deepcopy(spec["base"]))
    sa, sb, changed = restate(kind, base, spec.get("forms") if kind == "forms" else spec.get("probe"))
    if not changed:
        out.label("unchanged:" + kind)
        return out
    ba, ta = e2e.run(enc(sa))
    bb, tb = e2e.run(enc(sb))
    if ta.exc is not None or tb.exc is not None:
        if (ta.exc is None) != (tb.exc is None):
            out.fail("C10.%s.exc" % kind, "one statement raised (%s) and the equivalent one did not (%s)"
                     % (ta.exc[:2] if ta.exc else None, tb.exc[:2] if tb.exc else None))
        out.label("crash")
        return out
    pa, pb_ = eval_seq(ba, ta), eval_seq(bb, tb)
    ra, rb = ta.result, tb.result
    same_pts = len(pa) == len(pb_) and all(e2e.same(p, q) for p, q in zip(pa, pb_))
    if not same_pts:
        first = next((i for i, (p, q) in enumerate(zip(pa, pb_)) if not e2e.same(p, q)), min(len(pa), len(pb_)))
        out.fail("C10.%s.points" % kind, "the two statements evaluate different points: %d vs %d evaluations, first "
                 "difference at evaluation %d" % (len(pa), len(pb_), first + 1), first=first + 1)
        return out
    xa = np.asarray(ra.x, float)
    xb = bb.X(np.asarray(rb.x, float))
    if not (ra.status == rb.status and ra.nfev == rb.nfev and ra.nit == rb.nit and e2e.same(xa, xb)
            and e2e.same(ra.fun, rb.fun)):
        out.fail("C10.%s.result" % kind, "same evaluation sequence but different results: status %d/%d nfev %d/%d "
                 "nit %d/%d fun %r/%r" % (ra.status, rb.status, ra.nfev, rb.nfev, ra.nit, rb.nit, float(ra.fun),
                                          float(rb.fun)))
        return out
    ma, mb = float(ra.maxcv), float(rb.maxcv)
    tol = 256 * S.EPS * (1.0 + abs(ma) + float(np.sum(np.abs(xa))) * 8.0)
    if not (e2e.same(ma, mb) or abs(ma - mb) <= tol):
        out.fail("C10.%s.maxcv" % kind, "maxcv differs between the statements: %r vs %r" % (ma, mb))
    out.label("status%d" % ra.status)
    if any(rec["kind"] != "init" for rec in ta.evals):
        out.nontrivial = True
        out.sample = {"kind": kind, "nfev": int(ra.nfev), "status": int(ra.status), "base": spec["base"]}
    return out


SIGNATURES = {}
