"""C18 - trust-region radius, resolution, penalty and centre stay coherent."""
import copy
import math

import numpy as np
from hypothesis import strategies as st
from hypothesis.stateful import RuleBasedStateMachine, initialize, invariant, precondition, rule

from .. import e2e
from .. import spec as S
from ..engine import Outcome, dec, enc

ID = "C18"
RULE = (
    "end to end: generated minimize calls with radius_init / radius_final over 30 decades (equal radii, "
    "radius_final = 0) and radius-management constants drawn anywhere inside their documented domains, observed "
    "by taps at every get_trust_region_step, update_radius, enhance_resolution, radius assignment and "
    "get_index_to_remove: radius_final <= resolution <= radius, resolution non-increasing, penalty finite and >= 0, "
    "the centre is a least-merit interpolation point (merit recomputed by the harness), the index chosen for "
    "replacement is never the centre, status 0 only with resolution == radius_final. Stateful: a rule-based "
    "machine on a bare TrustRegion with rules update_radius(ratio, |s|) over a grid incl. negative and huge "
    "ratios, short_step(), enhance_resolution(); same invariants plus a logarithmic bound on the number of "
    "resolution reductions. Non-trivial = a run with at least one resolution reduction and one penalty change "
    "(end to end); a history with at least one resolution reduction (machine); distinct = distinct spec / history. "
    "Centre family (one case in four): the TrustRegion left by a short generated run has its recorded values, "
    "penalty and current best index edited (copies, +-k ulps, 2^100 barrier values, scaled constraint rows, "
    "penalties 0..2^56) and set_best_index is called; non-trivial = a round in which another point lies within "
    "the rounding band of the least merit with a different violation"
)
ASSUMPTIONS = [
    "the merit of interpolation point k is recomputed as fun_val[k] + penalty*||violation_k||_2 from the "
    "recorded values and the internal linear residuals; 'least' allows the solver's own rounding band "
    "npt*10*eps*max(n,npt)*max(|merit|,1); exact ties must go to the smaller violation",
    "bound on the number of reductions before resolution == radius_final: ceil(log(r0/rf)/log(1/f)) + "
    "ceil(log2(log L/log m)) + 3 with f = decrease_resolution_factor, L, m = large/moderate thresholds",
]

PROFILE = dict(
    ns=[(1, 2), (2, 5), (3, 3)],
    obj_kinds=[("quad", 5), ("lin", 2), ("rosen", 2), ("abs", 1), ("noisy", 1)],
    max_lin=2, max_nl=2, faults=5, maxfev=(10, 120), opt_prob=15, callback_prob=0, scale_prob=20,
    infeasible_prob=25, debug_prob=0,
)
UNIT = ["decrease_radius_factor", "decrease_resolution_factor", "low_ratio", "high_ratio", "very_low_ratio",
        "short_step_threshold", "low_radius_factor", "byrd_omojokun_factor"]
GT1 = ["increase_radius_factor", "increase_radius_threshold", "decrease_radius_threshold",
       "large_resolution_threshold", "moderate_resolution_threshold", "penalty_increase_factor",
       "threshold_ratio_constraints", "large_gradient_factor", "resolution_factor"]


def budget(tier):
    return 3000 if tier == "quick" else 120000


@st.composite
def constants(draw):
    c = {}
    for nm in draw(st.lists(st.sampled_from(UNIT + GT1 + ["penalty_increase_threshold", "large_shift_factor"]),
                            max_size=6, unique=True)):
        if nm in UNIT:
            c[nm] = draw(st.sampled_from([2.0 ** -20, 0.01, 0.1, 0.25, 0.5, 0.75, 0.9, 1.0 - 2.0 ** -20]))
        elif nm in GT1:
            c[nm] = draw(st.sampled_from([1.0 + 2.0 ** -20, 1.01, 1.1, 1.5, 2.0, 4.0, 16.0, 250.0, 1e6]))
        elif nm == "penalty_increase_threshold":
            c[nm] = draw(st.sampled_from([1.0, 1.5, 4.0, 100.0]))
        else:
            c[nm] = draw(st.sampled_from([0.0, 1.0, 10.0, 1e3]))
    # supplied coupled pairs must satisfy their relations (valid calls only)
    def fix(a, b, strict):
        if a in c and b in c and not (c[a] < c[b] if strict else c[a] <= c[b]):
            c[a], c[b] = min(c[a], c[b]), max(c[a], c[b])
            if strict and c[a] == c[b]:
                c.pop(a)
    fix("low_ratio", "high_ratio", False)
    fix("decrease_radius_threshold", "increase_radius_factor", True)
    fix("moderate_resolution_threshold", "large_resolution_threshold", False)
    fix("penalty_increase_threshold", "penalty_increase_factor", False)
    return c


@st.composite
def strategy_e2e(draw):
    sp = dec(draw(S.problems_mix([(PROFILE, 3), (dict(PROFILE, **S.SOC_PRONE), 1)])))
    ri = draw(st.sampled_from([1e-15, 1e-6, 0.125, 0.5, 1.0, 2.0, 1e3, 1e15]))
    mode = draw(st.sampled_from(["default", "equal", "zero", "ratio", "ratio", "only_init", "only_final"]))
    opts = sp["options"]
    opts.pop("radius_init", None)
    opts.pop("radius_final", None)
    if mode == "equal":
        opts["radius_init"] = opts["radius_final"] = ri
    elif mode == "zero":
        opts["radius_init"], opts["radius_final"] = ri, 0.0
    elif mode == "ratio":
        opts["radius_init"] = ri
        opts["radius_final"] = ri * draw(st.sampled_from([1e-15, 1e-6, 1e-3, 0.1, 0.5]))
    elif mode == "only_init":
        opts["radius_init"] = ri
    elif mode == "only_final":
        opts["radius_final"] = draw(st.sampled_from([0.0, 1e-12, 1e-6, 0.5, 5.0]))
    sp["constants"] = draw(constants())
    # injected fault (one case in six): the update of the interpolation set reports an ill-conditioned system at
    # some of its calls - a legitimate return value that real runs produce only late and in higher dimension;
    # the solver then takes its geometry branch, in which every invariant must hold as well
    if draw(st.integers(0, 5)) == 0:
        sp["inject_ill"] = sorted(draw(st.sets(st.integers(1, 40), min_size=1, max_size=8)))
    return enc(sp)


CENTRE_PROFILE = dict(PROFILE, maxfev=(4, 30), faults=10, infeasible_prob=50)


@st.composite
def strategy_centre(draw):
    """Direct family for the centre rule: a short generated run provides a real TrustRegion (bounds, linear and
    nonlinear constraints of any shape); its recorded values, penalty and current best index are then edited
    to create exact ties, ties within the rounding band, barrier-sized values, and `set_best_index` is called."""
    base = draw(S.problems(CENTRE_PROFILE))
    rounds = []
    for _ in range(draw(st.integers(1, 4))):
        edits = draw(st.lists(st.tuples(st.integers(0, 11), st.integers(0, 11),
                                        st.sampled_from(["copy", "copy", "ulp", "ulp", "barrier", "dyadic", "small"]),
                                        st.integers(-4, 4)), max_size=6))
        cedits = draw(st.lists(st.tuples(st.integers(0, 11), st.integers(0, 11),
                                         st.sampled_from([0.0, 0.5, 1.0, 1.0, 2.0, -1.0])), max_size=4))
        pen = draw(st.sampled_from(["keep", "keep", 0.0, 1.0, 2.0 ** 20, 2.0 ** 56]))
        rounds.append({"edits": [list(e) for e in edits], "cedits": [list(e) for e in cedits], "pen": pen,
                       "best": draw(st.integers(0, 11))})
    return enc({"kind": "centre", "base": dec(base), "rounds": rounds})


def strategy(tier):
    return st.integers(0, 3).flatmap(lambda i: strategy_centre() if i == 0 else strategy_e2e())


GIVEN_SHARE = 0.7


class TRTaps:
    def __init__(self, trace, taps, out, inject_ill=None):
        self.t, self.taps, self.out = trace, taps, out
        self.inject_ill = set(inject_ill or [])
        self.n_updates = 0
        self.res_prev = None
        self.n_reductions = 0
        self.penalties = set()
        self.n_iter = 0

    def __enter__(self):
        import cobyqa.framework as cf

        me = self

        def before_tr(orig):
            def method(fw, options):
                me.state(fw, options, "get_trust_region_step")
                me.centre(fw)
                me.n_iter += 1
                return orig(fw, options)
            return method

        def after(name):
            def fac(orig):
                def method(fw, *a, **k):
                    r = orig(fw, *a, **k)
                    opts = me.t.options_obj if hasattr(me.t, "options_obj") else None
                    if opts is not None:
                        me.state(fw, opts, name)
                    return r
                return method
            return fac

        def idx(orig):
            def method(fw, x_new=None):
                r = orig(fw, x_new)
                if x_new is not None and int(r[0]) == int(fw.best_index):
                    me.out.fail("C18.remove_centre", "the interpolation point chosen for replacement by the trial "
                                "point is the centre of the trust region (index %d)" % int(r[0]))
                return r
            return method

        def remember(orig):
            def method(fw):
                fw._vf_sel = snapshot_selection(fw)
                return orig(fw)
            return method

        def upd(orig):
            def method(models, k_new, *a, **k):
                fw = me.t.framework
                if fw is not None and hasattr(fw, "_models") and fw.models is models \
                        and int(k_new) == int(fw.best_index):
                    me.out.fail("C18.replace_centre", "the interpolation point being replaced (index %d) is the "
                                "centre of the trust region" % int(k_new))
                r = orig(models, k_new, *a, **k)
                me.n_updates += 1
                if me.n_updates in me.inject_ill:
                    me.out.label("ill-conditioning-injected")
                    return True
                return r
            return method

        import cobyqa.models as cm
        self.taps.patch(cm.Models, "update_interpolation", upd)
        self.taps.patch(cf.TrustRegion, "set_best_index", remember)
        self.taps.patch(cf.TrustRegion, "get_trust_region_step", before_tr)
        self.taps.patch(cf.TrustRegion, "update_radius", after("update_radius"))
        self.taps.patch(cf.TrustRegion, "enhance_resolution", after("enhance_resolution"))
        self.taps.patch(cf.TrustRegion, "get_index_to_remove", idx)
        return self

    def __exit__(self, *exc):
        return False

    def state(self, fw, options, where):
        out = self.out
        rf = options["radius_final"]
        res, rad, pen = fw.resolution, fw.radius, fw.penalty
        if not (rf <= res):
            out.fail("C18.resolution_below_final", "at %s: resolution %.17g < radius_final %.17g" % (where, res, rf),
                     where=where)
        if not (res <= rad):
            out.fail("C18.radius_below_resolution", "at %s: radius %.17g < resolution %.17g" % (where, rad, res),
                     where=where)
        if self.res_prev is not None and res > self.res_prev:
            out.fail("C18.resolution_increased", "at %s: the resolution increased from %.17g to %.17g"
                     % (where, self.res_prev, res))
        if self.res_prev is not None and res < self.res_prev:
            self.n_reductions += 1
        self.res_prev = res
        if not (math.isfinite(pen) and pen >= 0.0):
            out.fail("C18.penalty", "at %s: penalty parameter %r" % (where, pen))
        self.penalties.add(float(pen))

    def centre(self, fw):
        centre_clause(fw, self.out, self)


def snapshot_selection(fw):
    """What set_best_index is about to see: the centre it starts from and the solver's own merit values and
    violations of the interpolation points (used only by the signature of the known finding KF-C18-1)."""
    m, pb = fw.models, fw._pb
    try:
        own_m = [float(fw.merit(m.interpolation.point(i), m.fun_val[i], m.cub_val[i, :], m.ceq_val[i, :]))
                 for i in range(m.npt)]
        own_r = [float(pb.maxcv(m.interpolation.point(i), m.cub_val[i, :], m.ceq_val[i, :])) for i in range(m.npt)]
    except Exception:
        return None
    return {"prev": int(fw._best_index), "own_merits": own_m, "own_viols": own_r}


def _sel_data(fw):
    """Data for the signature of KF-C18-1: what the last selection saw, and what the solver's merit function gives
    now (the two differ when the set has changed since - then the centre is stale, which is another matter)."""
    sel = dict(getattr(fw, "_vf_sel", None) or {"prev": None, "own_merits": [], "own_viols": []})
    cur = snapshot_selection(fw)
    sel["cur_merits"] = cur["own_merits"] if cur else []
    return sel


def centre_clause(fw, out, once=None):
    m = fw.models
    pb = fw._pb
    npt, n = m.npt, m.n
    pen = fw.penalty
    merits, viols, mags = [], [], []
    for k in range(npt):
        x = m.interpolation.point(k)
        v = np.r_[np.maximum(pb.linear.a_ub @ x - pb.linear.b_ub, 0.0), np.abs(pb.linear.a_eq @ x - pb.linear.b_eq),
                  np.maximum(m.cub_val[k, :], 0.0), np.abs(m.ceq_val[k, :])]
        mk = m.fun_val[k]
        pk = 0.0
        if pen > 0.0 and np.count_nonzero(v):
            pk = pen * float(np.linalg.norm(v))
            mk = mk + pk
        merits.append(float(mk))
        mags.append(abs(float(m.fun_val[k])) + pk)
        viols.append(float(np.max(v, initial=0.0)))
    b = int(fw.best_index)
    mb = merits[b]
    mmin = min(merits)
    band = 1.5 * 10.0 * S.EPS * max(n, npt) * max(abs(mb), abs(mmin), 1.0)
    if not math.isfinite(mb) or not math.isfinite(band):
        return
    # allow for the rounding of the harness' own recomputation of the linear residuals
    band += 64 * S.EPS * pen * sum(viols) + 64 * S.EPS * abs(mb)
    if mb > mmin + band:
        out.fail("C18.centre", "the centre (index %d, merit %.17g) is not a least-merit interpolation point: "
                 "index %d has merit %.17g (penalty %.3g, band %.3g)"
                 % (b, mb, int(np.argmin(merits)), mmin, pen, band),
                 centre=b, n=int(n), npt=int(npt),
                 **_sel_data(fw))
        return
    # ties within rounding go to the smaller violation.  "Within rounding" is the solver's own band
    # 10*eps*max(n, npt)*max(|least merit|, 1); only points clearly inside it (half the band, minus the
    # rounding of this recomputation of the merit values) and clearly less violated (1e-9 relative) count.
    tol = 10.0 * S.EPS * max(n, npt) * max(abs(mmin), 1.0)
    slack = 8.0 * S.EPS * max(mags)
    for k in range(npt):
        if k != b and merits[k] - mmin <= 0.5 * tol - slack and viols[k] < viols[b] - 1e-9 * max(1.0, viols[b]):
            out.fail("C18.centre_tie", "index %d has the least merit up to rounding (%.17g, least %.17g, centre "
                     "%.17g, band %.3g) and a smaller violation than the centre %d (%.6g < %.6g)"
                     % (k, merits[k], mmin, mb, tol, b, viols[k], viols[b]),
                     centre=b, n=int(n), npt=int(npt),
                     **_sel_data(fw))
            break
    if any(k != b and merits[k] - mmin <= 0.5 * tol - slack and viols[k] > viols[b] + 1e-9 * max(1.0, viols[b])
           for k in range(npt)):
        if once is None or not getattr(once, "_tie_seen", False):
            if once is not None:
                once._tie_seen = True
            out.label("merit-tie-with-different-violations")
        return True
    return False


def centre_case(spec):
    out = Outcome()
    b, t = e2e.run(enc(spec["base"]))
    fw = t.framework
    if t.exc is not None or fw is None or not hasattr(fw, "_models"):
        out.label("centre-family-no-framework")
        return out
    m = fw.models
    npt = m.npt
    ties = 0
    for rd in spec["rounds"]:
        for k, j, mode, u in rd["edits"]:
            k, j = k % npt, j % npt
            v = float(m.fun_val[j])
            if mode == "ulp":
                for _ in range(abs(u)):
                    v = float(np.nextafter(v, math.inf if u > 0 else -math.inf))
            elif mode == "barrier":
                v = e2e.BARRIER if u >= 0 else -e2e.BARRIER
            elif mode == "dyadic":
                v = v + u * 2.0 ** -10
            elif mode == "small":
                v = u * 2.0 ** -30
            m.fun_val[k] = v
        for k, j, fac in rd["cedits"]:
            k, j = k % npt, j % npt
            m.cub_val[k, :] = fac * m.cub_val[j, :]
            m.ceq_val[k, :] = fac * m.ceq_val[j, :]
        if rd["pen"] != "keep":
            fw._penalty = float(rd["pen"])
        fw._best_index = rd["best"] % npt
        fw._vf_sel = snapshot_selection(fw)
        fw.set_best_index()
        if centre_clause(fw, out):
            ties += 1
        first = int(fw.best_index)
        fw.set_best_index()
        if int(fw.best_index) != first:
            out.label("centre-changes-on-repeat")
    out.label("centre-family")
    if ties:
        out.nontrivial = True
        out.sample = {"family": "centre", "npt": int(npt), "n": int(m.n), "rounds": len(spec["rounds"]),
                      "rounds_with_rounding_ties_of_different_violation": ties, "penalty": float(fw.penalty)}
    return out


def run_case(spec):
    if isinstance(spec, dict) and spec.get("kind") == "centre":
        return centre_case(dec(spec))
    out = Outcome()
    holder = {}

    def extra(trace, taps):
        holder["tr"] = TRTaps(trace, taps, out, inject_ill=dec(spec).get("inject_ill") if isinstance(spec, dict) else None)
        return holder["tr"]

    b, t = e2e.run(spec, extra_taps=extra)
    if t.exc is not None:
        out.label("crash:%s@%s" % (t.exc[0], t.exc[2]))
        return out
    tr = holder["tr"]
    r = t.result
    out.label("status%d" % r.status)
    if r.status == 0 and t.framework is not None and t.options is not None:
        if not (t.framework.resolution == t.options["radius_final"]):
            out.fail("C18.status0", "status 0 with resolution %.17g != radius_final %.17g"
                     % (t.framework.resolution, t.options["radius_final"]))
    if tr.n_reductions >= 1:
        out.label("resolution-reduced")
    if len(tr.penalties) >= 2:
        out.label("penalty-changed")
    if b.constants:
        out.label("custom-constants")
    if tr.n_reductions >= 1 and len(tr.penalties) >= 2:
        out.nontrivial = True
        out.sample = e2e.summarize(spec, t)
        out.sample["iterations"] = tr.n_iter
        out.sample["reductions"] = tr.n_reductions
    return out


# ---------------------------------------------------------------------------------------------
# rule machine on a bare TrustRegion


class Bare:
    def __init__(self, init):
        import warnings

        from cobyqa.framework import TrustRegion
        from cobyqa.main import _set_default_constants, _set_default_options
        from cobyqa.problem import (BoundConstraints, LinearConstraints, NonlinearConstraints,
                                    ObjectiveFunction, Problem)
        from scipy.optimize import Bounds

        init = dec(init)
        self.out = Outcome()
        obj = ObjectiveFunction(lambda x: float(x[0] ** 2), False, False)
        pb = Problem(obj, [0.5], BoundConstraints(Bounds([-np.inf], [np.inf])), LinearConstraints([], 1, False),
                     NonlinearConstraints([], False, False), None, 1e-8, False, False, 1, 10 ** 9, False)
        opts = {"radius_init": init["radius_init"], "radius_final": init["radius_final"], "maxfev": 1000}
        with warnings.catch_warnings():
            warnings.simplefilter("ignore")
            _set_default_options(opts, 1)
            self.consts = _set_default_constants(**init["constants"])
        self.opts = opts
        self.fw = TrustRegion(pb, opts, self.consts)
        self.rf = opts["radius_final"]
        self.r0 = self.fw.resolution
        self.res_prev = self.fw.resolution
        self.n_red = 0
        self.n_enh = 0
        self.check("init")

    def check(self, where):
        fw, out = self.fw, self.out
        res, rad = fw.resolution, fw.radius
        if not (self.rf <= res):
            out.fail("C18.m.resolution_below_final", "after %s: resolution %.17g < radius_final %.17g (constants %r)"
                     % (where, res, self.rf, {k: self.consts[k] for k in ("decrease_resolution_factor",
                                                                           "large_resolution_threshold",
                                                                           "moderate_resolution_threshold")}))
        if not (res <= rad):
            out.fail("C18.m.radius_below_resolution", "after %s: radius %.17g < resolution %.17g" % (where, rad, res))
        if res > self.res_prev:
            out.fail("C18.m.resolution_increased", "after %s: resolution increased" % where)
        if res < self.res_prev:
            self.n_red += 1
        self.res_prev = res
        if self.rf > 0 and res > self.rf:
            f = self.consts["decrease_resolution_factor"]
            L = self.consts["large_resolution_threshold"]
            m_ = self.consts["moderate_resolution_threshold"]
            bound = (math.ceil(math.log(max(self.r0 / self.rf, 1.0)) / math.log(1.0 / f))
                     + math.ceil(math.log2(max(math.log(L) / math.log(m_), 1.0))) + 3)
            if self.n_enh > bound:
                out.fail("C18.m.reductions", "%d resolution reductions and still above radius_final (bound %d, r0/rf "
                         "%.3g, factor %.3g)" % (self.n_enh, bound, self.r0 / self.rf, f))

    def update_radius(self, ratio, snorm):
        self.fw.update_radius(np.array([snorm * self.fw.radius]), ratio)
        self.check("update_radius")

    def short_step(self):
        self.fw.radius *= self.consts["decrease_resolution_factor"]
        self.check("short_step")

    def enhance(self):
        if self.fw.resolution <= self.rf:
            return  # the solver stops instead
        self.fw.enhance_resolution(self.opts)
        self.n_enh += 1
        self.check("enhance_resolution")

    def finish(self):
        self.out.nontrivial = self.n_red >= 1
        if self.fw.resolution == self.rf:
            self.out.label("reached-radius_final")
        self.out.sample = {"radius_init": self.r0, "radius_final": self.rf, "reductions": self.n_red}


class RadiusMachine(RuleBasedStateMachine):
    def __init__(self):
        super().__init__()
        self.ops = []
        self.init_spec = None
        self.drv = None
        self.out = Outcome()

    @initialize(ri=st.sampled_from([1e-15, 1e-6, 0.125, 1.0, 2.0, 1e3, 1e15]),
                rr=st.sampled_from([0.0, 1e-15, 1e-6, 1e-3, 0.1, 0.5, 1.0]), consts=constants())
    def setup(self, ri, rr, consts):
        self.init_spec = enc({"radius_init": ri, "radius_final": ri * rr, "constants": consts})
        self.drv = Bare(self.init_spec)
        self.out.fails.extend(self.drv.out.fails)
        self.drv.out = self.out

    @precondition(lambda self: self.drv is not None)
    @rule(ratio=st.sampled_from([-1e30, -1.0, -0.01, 0.0, 0.01, 0.05, 0.1, 0.5, 0.7, 0.9, 1.0, 10.0, 1e30]),
          snorm=st.sampled_from([0.0, 1e-12, 0.01, 0.5, 0.9, 1.0, 1.4]))
    def update_radius(self, ratio, snorm):
        self.drv.out = self.out
        self.ops.append(enc(["update_radius", ratio, snorm]))
        self.drv.update_radius(ratio, snorm)

    @precondition(lambda self: self.drv is not None)
    @rule()
    def short_step(self):
        self.drv.out = self.out
        self.ops.append(["short_step"])
        self.drv.short_step()

    @precondition(lambda self: self.drv is not None)
    @rule()
    def enhance(self):
        self.drv.out = self.out
        self.ops.append(["enhance"])
        self.drv.enhance()

    @invariant()
    def report(self):
        if self.drv is not None:
            type(self)._vf_hook(self, False)

    def teardown(self):
        if self.drv is not None:
            self.drv.out = self.out
            self.drv.finish()
            type(self)._vf_hook(self, True)


def machines(tier):
    return [("radius", RadiusMachine, 0.3, 25 if tier == "quick" else 60)]


def replay_ops(name, init, ops):
    drv = Bare(init)
    for op in dec(ops):
        getattr(drv, op[0])(*op[1:])
    drv.finish()
    return drv.out


def sig_sequential_rule(spec, fail):
    """KF-C18-1: the centre is exactly what the shipped pairwise rule of set_best_index - `m_k < m_best or
    (m_k < m_best + tol and r_k < r_best)`, scanned in index order from the previous centre - selects from the
    solver's own merit values.  Anything else (another tie direction, a stale centre) is not this finding."""
    d = fail.data or {}
    # (also the plain "C18.centre" clause: a chain of pairwise decisions can leave the centre a few bands above
    # the least merit)
    if fail.clause not in ("C18.centre_tie", "C18.centre") or d.get("prev") is None \
            or len(d["own_merits"]) != d["npt"]:
        return False
    M, R, n, npt = d["own_merits"], d["own_viols"], d["n"], d["npt"]
    cur = d.get("cur_merits") or []
    if len(cur) != npt or not np.allclose(np.array(M, float), np.array(cur, float), rtol=1e-12, atol=0.0):
        return False  # the interpolation set has changed since the last selection: a stale centre, not this finding

    def band(mv):
        return 10.0 * S.EPS * max(n, npt) * max(abs(mv), 1.0)
    prev = int(d["prev"])
    best, m_best, r_best, tol = prev, M[prev], R[prev], band(M[prev])
    for k in range(npt):
        if k != prev and (M[k] < m_best or (M[k] < m_best + tol and R[k] < r_best)):
            best, m_best, r_best, tol = k, M[k], R[k], band(M[k])
    return best == int(d["centre"])


SIGNATURES = {"sequential_rule_from_previous_centre": sig_sequential_rule}
