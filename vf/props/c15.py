"""C15 - subproblem solvers always return admissible steps (also hosts the generator shared with C16)."""
import math

import numpy as np
from hypothesis import strategies as st

from ..engine import Outcome, dec, enc

ID = "C15"
RULE = (
    "cases = direct calls of the five public subproblem solvers (tangential_byrd_omojokun, "
    "constrained_tangential_byrd_omojokun, normal_byrd_omojokun, cauchy_geometry, spider_geometry) on generated "
    "data: n in 1..6; gradients with exact zeros and magnitudes over 12 decades; Hessians low-rank / zero / "
    "indefinite / scaled over 12 decades; bounds active at the origin, infinite, fixed (xl=xu=0), tiny; constraint "
    "matrices with duplicated, dependent and zero rows, right-hand sides with exact zeros (active at the origin); "
    "radius over 12 decades; improve_tcg on/off; the origin is feasible by construction. Non-trivial = a non-zero "
    "step was returned and at least one degeneracy (bound or constraint active at the origin, rank-deficient "
    "constraints, zero or indefinite Hessian, zero gradient component, fixed variable) is present; distinct = "
    "distinct spec hash"
)
ASSUMPTIONS = [
    "bounds are compared exactly; |s| <= delta*(1 + 1e3*eps*n); linear admissibility is judged with norms: "
    "a_i.s - b_i <= 1e3*eps*n*(|a_i||s| + |b_i|) for rows with b_i >= 0, |A_E s|_i <= 1e3*eps*n*|a_i||s|",
    "row norms of the constraint matrices stay within a ratio of 1e12 of each other (the stated 12 decades); "
    "beyond 1/eps the active-set QR loses the small rows (observation O1 in DESIGN.md), which is outside the claim",
]
EPS = np.finfo(float).eps
SOLVERS = ["tangential", "constrained", "normal", "cauchy", "spider"]


def budget(tier):
    return 80000 if tier == "quick" else 3000000


def small():
    return st.sampled_from([0.0, 0.0, 1.0, -1.0, 0.5, 2.0, -3.0, 0.25, -0.125])


def decade(lo=-6, hi=6):
    return st.integers(lo, hi).map(lambda k: 10.0 ** k)


@st.composite
def subproblems(draw, solvers=SOLVERS):
    solver = draw(st.sampled_from(solvers))
    n = draw(st.integers(1, 6))
    # half of the cases have coherent scales (radius, bounds, right-hand sides and gradient all of
    # order one), so that the trust-region boundary is reached with bounds and linear constraints
    # nearby and the boundary-improvement rotations are restricted by them; the other half sweeps
    # every magnitude independently over 12 decades
    coherent = draw(st.booleans())
    if coherent:
        return draw(coherent_subproblem(solver, n))
    # 12 decades (1e-6..1e6), occasionally three more at the small end (gradients down to 1e-10)
    mg = draw(decade()) * draw(st.sampled_from([1.0, 1.0, 1.0, 1.0, 1e-3]))
    g = [draw(small()) * mg for _ in range(n)]
    blocked = None
    if n >= 2 and draw(st.integers(0, 7)) == 0:
        # one component 2^20..2^36 times the others, pushing against a bound active at the origin: the
        # full gradient is dominated by a component the step cannot use (seeded change C16n)
        blocked = draw(st.integers(0, n - 1))
        g[blocked] = (g[blocked] if g[blocked] != 0.0 else mg) * 2.0 ** draw(st.integers(20, 36))
    r = draw(st.integers(0, n))
    B = [[draw(st.sampled_from([-1.0, 0.0, 1.0, 2.0])) for _ in range(r)] for _ in range(n)]
    D = [draw(st.sampled_from([-1.0, 1.0, 0.01, 3.0, 1.0])) for _ in range(r)]
    mh = draw(decade()) * draw(st.sampled_from([0.0, 1.0, 1.0]))
    xl = [-abs(draw(st.sampled_from([0.0, 0.0, 1.0, 0.5, 2.0, 1e-3, 1e3, math.inf, math.inf]))) for _ in range(n)]
    xu = [abs(draw(st.sampled_from([0.0, 0.0, 1.0, 0.5, 2.0, 1e-3, 1e3, math.inf, math.inf]))) for _ in range(n)]
    if blocked is not None:
        if g[blocked] > 0.0:
            xl[blocked] = 0.0
        else:
            xu[blocked] = 0.0
    delta = draw(decade()) * draw(st.sampled_from([1.0, 0.5, 2.0, 1.0]))
    sp = {"solver": solver, "n": n, "g": g, "B": B, "D": D, "mh": mh, "xl": xl, "xu": xu, "delta": delta,
          "improve_tcg": draw(st.booleans())}
    if solver in ("constrained", "normal"):
        mub = draw(st.integers(0, 4))
        ma = draw(decade(-3, 3))
        aub = [[draw(st.sampled_from([-2.0, -1.0, 0.0, 1.0, 2.0])) * ma for _ in range(n)] for _ in range(mub)]
        if mub >= 2 and draw(st.integers(0, 3)) == 0:
            aub[1] = list(aub[0])
        if mub >= 3 and draw(st.integers(0, 3)) == 0:
            aub[2] = [a + b for a, b in zip(aub[0], aub[1])]
        # keep the row norms within 12 decades: a second scale for some rows
        for i in range(mub):
            if draw(st.integers(0, 4)) == 0:
                f = draw(decade(-3, 3))
                aub[i] = [a * f for a in aub[i]]
        if solver == "constrained":
            bub = [abs(draw(st.sampled_from([0.0, 0.0, 1.0, 0.5, 1e-3, 10.0]))) * ma for _ in range(mub)]
        else:
            bub = [draw(st.sampled_from([0.0, 0.0, 1.0, -1.0, 0.5, -0.25, 1e-3, -10.0])) * ma for _ in range(mub)]
        meq = draw(st.integers(0, min(2, n)))
        aeq = [[draw(st.sampled_from([-2.0, -1.0, 0.0, 1.0, 2.0])) * ma for _ in range(n)] for _ in range(meq)]
        if meq == 2 and draw(st.integers(0, 3)) == 0:
            aeq[1] = [2.0 * a for a in aeq[0]]
        sp.update(aub=aub, bub=bub, aeq=aeq)
        if solver == "normal":
            sp["beq"] = [draw(st.sampled_from([0.0, 1.0, -1.0, 0.5])) * ma for _ in range(meq)]
    if solver in ("cauchy", "spider"):
        sp["const"] = draw(st.sampled_from([0.0, 0.0, 1.0, -1.0, 0.5])) * draw(st.sampled_from([1.0, mg, mg * delta]))
    if solver == "spider":
        npt = draw(st.integers(1, 5))
        sp["xpt"] = [[draw(st.sampled_from([0.0, 1.0, -1.0, 0.5, -2.0])) * delta * draw(st.sampled_from([1.0, 0.1, 3.0]))
                      for _ in range(npt)] for _ in range(n)]
    return enc(sp)


@st.composite
def coherent_subproblem(draw, solver, n):
    v = st.sampled_from([-2.0, -1.0, -0.5, 0.0, 0.5, 1.0, 2.0, 3.0])
    g = [draw(v) for _ in range(n)]
    r = draw(st.integers(0, n))
    B = [[draw(st.sampled_from([-1.0, 0.0, 1.0, 2.0])) for _ in range(r)] for _ in range(n)]
    D = [draw(st.sampled_from([-1.0, 1.0, 0.25, 3.0, -0.5])) for _ in range(r)]
    bd = st.sampled_from([0.0, 0.25, 0.5, 0.75, 1.0, 2.0, math.inf])
    xl = [-draw(bd) for _ in range(n)]
    xu = [draw(bd) for _ in range(n)]
    sp = {"solver": solver, "n": n, "g": g, "B": B, "D": D, "mh": draw(st.sampled_from([0.0, 0.5, 1.0, 2.0])),
          "xl": xl, "xu": xu, "delta": draw(st.sampled_from([0.5, 1.0, 1.0, 2.0])), "improve_tcg": draw(st.integers(0, 3)) > 0}
    if solver in ("constrained", "normal"):
        mub = draw(st.integers(0, 4))
        aub = [[draw(st.sampled_from([-2.0, -1.0, 0.0, 1.0, 1.0, 0.5])) for _ in range(n)] for _ in range(mub)]
        if solver == "constrained":
            bub = [draw(st.sampled_from([0.0, 0.125, 0.25, 0.5, 0.75, 1.0])) for _ in range(mub)]
        else:
            bub = [draw(st.sampled_from([0.0, 0.25, 0.5, -0.25, -0.5, -1.0, 1.0])) for _ in range(mub)]
        meq = draw(st.integers(0, min(2, max(n - 1, 0))))
        aeq = [[draw(st.sampled_from([-1.0, 0.0, 1.0, 2.0])) for _ in range(n)] for _ in range(meq)]
        sp.update(aub=aub, bub=bub, aeq=aeq)
        if solver == "normal":
            sp["beq"] = [draw(st.sampled_from([0.0, 0.5, -0.5, 1.0])) for _ in range(meq)]
    if solver in ("cauchy", "spider"):
        sp["const"] = draw(st.sampled_from([0.0, 0.0, 1.0, -1.0, 0.25]))
    if solver == "spider":
        npt = draw(st.integers(1, 5))
        sp["xpt"] = [[draw(st.sampled_from([0.0, 1.0, -1.0, 0.5, -2.0, 0.25])) for _ in range(npt)] for _ in range(n)]
    return enc(sp)


def strategy(tier):
    return subproblems()


class Sub:
    """A built subproblem with the quantities the oracles need."""

    def __init__(self, sp):
        sp = dec(sp)
        self.sp = sp
        self.solver = sp["solver"]
        n = self.n = sp["n"]
        self.g = np.array(sp["g"], float)
        B = np.array(sp["B"], float).reshape(n, -1)
        self.H = (B @ np.diag(np.array(sp["D"], float)) @ B.T if B.shape[1] else np.zeros((n, n))) * sp["mh"]
        self.H = 0.5 * (self.H + self.H.T)
        self.xl = np.array(sp["xl"], float)
        self.xu = np.array(sp["xu"], float)
        self.delta = float(sp["delta"])
        self.kw = {"improve_tcg": bool(sp["improve_tcg"])}
        self.aub = np.array(sp.get("aub", []), float).reshape(-1, n)
        self.bub = np.array(sp.get("bub", []), float)
        self.aeq = np.array(sp.get("aeq", []), float).reshape(-1, n)
        self.beq = np.array(sp.get("beq", []), float)
        self.const = float(sp.get("const", 0.0))
        self.xpt = np.array(sp.get("xpt", []), float).reshape(n, -1)

    def q(self, s):
        return float(self.g @ s + 0.5 * s @ self.H @ s)

    def qmag(self, s):
        return float(np.abs(self.g) @ np.abs(s) + 0.5 * np.abs(s) @ np.abs(self.H) @ np.abs(s))

    def call(self):
        from cobyqa.subsolvers import (cauchy_geometry, constrained_tangential_byrd_omojokun, normal_byrd_omojokun,
                                       spider_geometry, tangential_byrd_omojokun)
        from ..fuel import Fuel

        # Termination.  Deterministic fuel, first line: the Hessian-product / curvature callbacks are
        # counted (a solver makes a handful per iteration and at most a few hundred iterations); second
        # line, for loops that make no callback: a SIGALRM watchdog, whose hit is replayed under a
        # counter of the Python calls made inside cobyqa (sys.settrace), which gives the verdict.
        import signal
        from ..fuel import Fuel, FuelExhausted

        def alarm(signum, frame):
            raise TimeoutError()

        old = signal.signal(signal.SIGALRM, alarm)
        signal.alarm(20)
        try:
            return self._call()
        except TimeoutError:
            signal.alarm(0)
            return Fuel(5_000_000).run(self._call)
        finally:
            signal.alarm(0)
            signal.signal(signal.SIGALRM, old)

    def _call(self):
        from cobyqa.subsolvers import (cauchy_geometry, constrained_tangential_byrd_omojokun, normal_byrd_omojokun,
                                       spider_geometry, tangential_byrd_omojokun)
        from ..fuel import FuelExhausted

        count = [0]

        def tick():
            count[0] += 1
            if count[0] > 20000:
                raise FuelExhausted()

        def hp(v):
            tick()
            return self.H @ v

        def cv(v):
            tick()
            return float(v @ self.H @ v)

        with np.errstate(all="ignore"):
            if self.solver == "tangential":
                return tangential_byrd_omojokun(self.g.copy(), hp, self.xl.copy(), self.xu.copy(), self.delta, False,
                                                **self.kw)
            if self.solver == "constrained":
                return constrained_tangential_byrd_omojokun(self.g.copy(), hp, self.xl.copy(), self.xu.copy(),
                                                            self.aub.copy(), self.bub.copy(), self.aeq.copy(),
                                                            self.delta, False, **self.kw)
            if self.solver == "normal":
                return normal_byrd_omojokun(self.aub.copy(), self.bub.copy(), self.aeq.copy(), self.beq.copy(),
                                            self.xl.copy(), self.xu.copy(), self.delta, False, **self.kw)
            if self.solver == "cauchy":
                return cauchy_geometry(self.const, self.g.copy(), cv, self.xl.copy(), self.xu.copy(), self.delta, False)
            return spider_geometry(self.const, self.g.copy(), cv, self.xpt.copy(), self.xl.copy(), self.xu.copy(),
                                   self.delta, False)

    def degeneracies(self):
        d = []
        if np.any((self.xl == 0) | (self.xu == 0)):
            d.append("bound-active-at-origin")
        if np.any((self.xl == 0) & (self.xu == 0)):
            d.append("fixed-variable")
        if np.any(np.isinf(self.xl)) or np.any(np.isinf(self.xu)):
            d.append("infinite-bound")
        if np.any(self.g == 0):
            d.append("zero-gradient-component")
        if not np.any(self.H):
            d.append("zero-hessian")
        elif np.min(np.linalg.eigvalsh(self.H)) < 0:
            d.append("indefinite-hessian")
        if self.bub.size and np.any(self.bub == 0):
            d.append("constraint-active-at-origin")
        A = np.vstack([self.aub, self.aeq]) if (self.aub.size or self.aeq.size) else np.zeros((0, self.n))
        if A.shape[0] and np.linalg.matrix_rank(A) < min(A.shape[0], A.shape[1] if A.shape[0] > A.shape[1] else A.shape[0]):
            d.append("rank-deficient-constraints")
        if A.shape[0] and np.any(~np.any(A != 0, axis=1)):
            d.append("zero-row")
        return d

    def row_ratio(self):
        A = np.vstack([self.aub, self.aeq]) if (self.aub.size or self.aeq.size) else np.zeros((0, self.n))
        nr = np.linalg.norm(A, axis=1)
        nr = nr[nr > 0]
        return float(np.max(nr) / np.min(nr)) if nr.size else 1.0


def admissible(sub, s, out, prefix="C15"):
    n = sub.n
    name = sub.solver
    if not isinstance(s, np.ndarray) or s.shape != (n,) or not np.all(np.isfinite(s)):
        out.fail(prefix + ".finite/" + name, "%s returned %r" % (name, s))
        return False
    xl, xu = np.minimum(sub.xl, 0.0), np.maximum(sub.xu, 0.0)
    if np.any(s < xl) or np.any(s > xu):
        out.fail(prefix + ".bounds/" + name, "%s returned a step outside the bounds by %.3g"
                 % (name, float(np.max(np.maximum(xl - s, s - xu)))), solver=name)
        return False
    ns = float(np.linalg.norm(s))
    out.ratio("norm_excess/(eps*n)", max(ns / sub.delta - 1.0, 0.0) / (EPS * n))
    if ns > sub.delta * (1.0 + 1e3 * EPS * n):
        out.fail(prefix + ".radius/" + name, "%s returned a step of norm %.17g for a radius %.17g" % (name, ns, sub.delta),
                 solver=name, rel_excess=ns / sub.delta - 1.0)
        return False
    if name == "constrained":
        for i in range(sub.aub.shape[0]):
            a, b = sub.aub[i], sub.bub[i]
            tol = 1e3 * EPS * n * (float(np.linalg.norm(a)) * ns + abs(b))
            exc = float(a @ s - b)
            if tol > 0:
                out.ratio("ineq_excess/tol", max(exc, 0.0) / tol)
            if exc > tol:
                out.fail(prefix + ".ineq", "constrained tangential step violates an inequality that held at the origin: "
                         "a.s - b = %.3g (tolerance %.3g)" % (exc, tol))
                return False
        for i in range(sub.aeq.shape[0]):
            a = sub.aeq[i]
            tol = 1e3 * EPS * n * float(np.linalg.norm(a)) * ns
            exc = abs(float(a @ s))
            if tol > 0:
                out.ratio("eq_excess/tol", exc / tol)
            if exc > tol:
                out.fail(prefix + ".eq", "constrained tangential step leaves the null space of the equality "
                         "constraints: |a.s| = %.3g (tolerance %.3g)" % (exc, tol))
                return False
    return True


def run_case(spec):
    out = Outcome()
    sub = Sub(spec)
    out.label("solver:" + sub.solver)
    if sub.row_ratio() > 1e12:
        out.label("row-ratio>1e12(unclaimed)")
        return out
    from ..fuel import FuelExhausted
    try:
        s = sub.call()
    except FuelExhausted:
        out.fail("C15.fuel/" + sub.solver, "%s does not return (more than 20000 Hessian-product / curvature "
                 "evaluations, or 5e6 line events inside cobyqa)" % sub.solver, fatal=True)
        return out
    except Exception as exc:
        out.fail("C15.exc/%s/%s" % (sub.solver, type(exc).__name__), "%s raised %s: %s" % (sub.solver, type(exc).__name__, exc))
        return out
    ok = admissible(sub, s, out)
    degs = sub.degeneracies()
    for d in degs:
        out.label(d)
    if ok and np.any(s != 0) and degs:
        out.nontrivial = True
        out.sample = {"spec": spec, "step": enc([float(v) for v in s])}
    if ok and not np.any(s != 0):
        out.label("zero-step")
    return out


def sig_boundary_improvement_snap(spec, fail):
    """KF-C15-1: the excess over the radius comes from the improvement of the step on the trust-region boundary
    (improve_tcg=True: the direction orthogonal to the step is obtained from sqrt(|s|^2 |g|^2 - (g.s)^2), which
    cancels when the projected gradient is nearly parallel to the step, so the "rotation" stretches the step; a
    coordinate snapped onto a bound adds to it), stays below the 10 % that the solver's own debug assertion
    tolerates, and is absent with improve_tcg=False."""
    d = fail.data or {}
    if ".radius/" not in fail.clause or d.get("solver") not in ("tangential", "constrained"):
        return False
    sp = dec(spec)
    if not sp.get("improve_tcg") or not (0.0 < d.get("rel_excess", 1.0) < 0.1):
        return False
    sub = Sub(dict(sp, improve_tcg=False))
    try:
        s0 = sub.call()
    except BaseException:
        return False
    return bool(np.all(np.isfinite(s0)) and float(np.linalg.norm(s0)) <= sub.delta * (1.0 + 1e3 * EPS * sub.n))


SIGNATURES = {"boundary_improvement_snap_norm_excess": sig_boundary_improvement_snap}
