"""C04 - on well-posed reference problems the solver finds the minimiser."""
import itertools
import math

import numpy as np
from hypothesis import strategies as st
from scipy.optimize import Bounds, LinearConstraint, NonlinearConstraint

from .. import e2e
from ..engine import Outcome, dec, enc

ID = "C04"
RULE = (
    "cases = instances of five reference families with default options, n in 1..5, condition number <= 100, "
    "data of order one, x0 at distance {0.1,1,5,20,50} from the solution / feasible set: (unc) strictly convex "
    "quadratic; (box) the same with bounds built around a chosen KKT point (per-variable pattern free / at lb / "
    "at ub, multipliers in [0.1,2] or 0); (lineq) linear equalities with small-integer full-row-rank A; "
    "(interval) one-variable convex quadratic over the interval cut by bounds and 0-2 linear inequalities; "
    "(ball) linear objective over a Euclidean ball. Every instance is non-trivial (solved to completion); "
    "distinct = distinct spec hash. The exact minimiser comes from the harness: closed forms, a KKT linear "
    "system, and for (box) an active-set enumeration over the 3^n patterns that must agree with the construction."
)
ASSUMPTIONS = [
    "distance thresholds relative to max(1,|x*|): unc 1e-4, box 1e-4, lineq 1e-3, interval 1e-4, ball 1e-2 "
    "(calibrated: worst observed on ~2000 instances per family 5e-7, 3.4e-7, 1e-4, <1e-6, 3.5e-4)",
    "feasibility is judged with the harness-side violation and the default feasibility_tol",
]
TOLS = {"unc": 1e-4, "box": 1e-4, "lineq": 1e-3, "interval": 1e-4, "ball": 1e-2}
FEAS_TOL = math.sqrt(np.finfo(float).eps)


def budget(tier):
    return 3000 if tier == "quick" else 60000


def fl(lo, hi):
    return st.floats(lo, hi, allow_nan=False, allow_infinity=False).map(lambda v: round(v, 6))


@st.composite
def spd(draw, n):
    """Q = H2 H1 diag(lam) H1 H2 with Householder reflections: condition number max(lam)/min(lam) <= 100."""
    lo = draw(fl(0.3, 3.0))
    lam = [lo] + [lo * draw(fl(1.0, 100.0)) for _ in range(n - 1)]
    vs = []
    for _ in range(draw(st.integers(0, 2))):
        v = [draw(st.integers(-3, 3)) for _ in range(n)]
        if any(v):
            vs.append(v)
    return {"lam": lam, "house": vs}


def build_q(q, n):
    Q = np.diag(np.array(q["lam"], float))
    for v in q["house"]:
        v = np.array(v, float)
        H = np.eye(n) - 2.0 * np.outer(v, v) / (v @ v)
        Q = H @ Q @ H.T
    return 0.5 * (Q + Q.T)


@st.composite
def direction(draw, n):
    d = [draw(st.integers(-4, 4)) for _ in range(n)]
    if not any(d):
        d[draw(st.integers(0, n - 1))] = 1
    return d


DIST = [0.1, 1.0, 5.0, 20.0, 50.0]


@st.composite
def instances(draw):
    fam = draw(st.sampled_from(["unc", "box", "box", "lineq", "interval", "ball"]))
    n = 1 if fam == "interval" else draw(st.integers(2 if fam == "lineq" else 1, 5))
    sp = {"family": fam, "n": n, "dist": draw(st.sampled_from(DIST)), "dir": draw(direction(n))}
    if fam in ("unc", "box", "lineq"):
        sp["Q"] = draw(spd(n))
    if fam == "unc":
        sp["c"] = [draw(fl(-3, 3)) for _ in range(n)]
    elif fam == "box":
        sp["xs"] = [draw(fl(-3, 3)) for _ in range(n)]
        sp["pat"] = [draw(st.sampled_from(["free", "lb", "ub"])) for _ in range(n)]
        sp["mu"] = [draw(st.one_of(fl(0.1, 2.0), st.just(0.0), fl(0.1, 2.0))) for _ in range(n)]
        # (narrow boxes make cobyqa reduce the initial radius below its default)
        sp["gap_lo"] = [draw(st.one_of(fl(0.3, 3.0), fl(0.3, 1.0), st.just("inf"))) for _ in range(n)]
        sp["gap_hi"] = [draw(st.one_of(fl(0.3, 3.0), fl(0.3, 1.0), st.just("inf"))) for _ in range(n)]
        sp["x0_on_bound"] = draw(st.integers(0, 2)) == 0
    elif fam == "lineq":
        m = draw(st.integers(1, n - 1))
        sp["A"] = [[draw(st.integers(-2, 2)) for _ in range(n)] for _ in range(m)]
        sp["c"] = [draw(fl(-3, 3)) for _ in range(n)]
        sp["xf"] = [draw(fl(-2, 2)) for _ in range(n)]
    elif fam == "interval":
        sp["q"] = draw(fl(0.3, 30.0))
        sp["c"] = draw(fl(-4, 4))
        sp["lb"] = draw(st.one_of(fl(-4, 0), st.just("-inf")))
        sp["ub"] = draw(st.one_of(fl(0, 4), st.just("inf")))
        # linear inequalities a*x <= b written as LinearConstraint rows
        sp["lin"] = [[draw(st.sampled_from([1.0, -1.0, 2.0, -0.5])), draw(fl(-3, 3))]
                     for _ in range(draw(st.integers(0, 2)))]
        sp["x0_side"] = draw(st.sampled_from([-1, 1]))
        sp["x0_on_bound"] = draw(st.booleans())
    elif fam == "ball":
        sp["g"] = draw(direction(n))
        sp["ctr"] = [draw(fl(-2, 2)) for _ in range(n)]
        sp["r"] = draw(fl(0.5, 3.0))
    return enc(sp)


def strategy(tier):
    return instances()


# ---------------------------------------------------------------------------------------------
# harness-side exact solutions


def box_qp_enumerate(Q, c, lb, ub):
    """Minimiser of 0.5 (x-c)'Q(x-c) over a box by active-set enumeration (3^n patterns)."""
    n = len(c)
    best = None
    for pat in itertools.product((0, 1, 2), repeat=n):  # 0 free, 1 at lb, 2 at ub
        if any((p == 1 and not np.isfinite(lb[i])) or (p == 2 and not np.isfinite(ub[i])) for i, p in enumerate(pat)):
            continue
        x = np.zeros(n)
        free = [i for i, p in enumerate(pat) if p == 0]
        fixed = [i for i, p in enumerate(pat) if p != 0]
        for i in fixed:
            x[i] = lb[i] if pat[i] == 1 else ub[i]
        if free:
            # Q_ff (x_f - c_f) + Q_fa (x_a - c_a) = 0
            rhs = -Q[np.ix_(free, fixed)] @ (x[fixed] - c[fixed]) if fixed else np.zeros(len(free))
            x[free] = c[free] + np.linalg.solve(Q[np.ix_(free, free)], rhs)
        if np.any(x < lb - 1e-12) or np.any(x > ub + 1e-12):
            continue
        g = Q @ (x - c)
        ok = all((pat[i] == 1 and g[i] >= -1e-10) or (pat[i] == 2 and g[i] <= 1e-10) or pat[i] == 0 for i in range(n))
        if ok:
            val = 0.5 * (x - c) @ Q @ (x - c)
            if best is None or val < best[0]:
                best = (val, x)
    return None if best is None else best[1]


def make_instance(sp):
    """Returns dict(fun, x0, kwargs, xs, feas(x) -> violation) or None if the harness' own
    cross-check rejects the instance (counted, never reported)."""
    sp = dec(sp)
    fam, n = sp["family"], sp["n"]
    d = np.array(sp["dir"], float)
    d = d / np.linalg.norm(d)
    kw = {}
    viol = lambda x: 0.0
    if fam == "unc":
        Q = build_q(sp["Q"], n)
        c = np.array(sp["c"], float)
        fun = lambda x: 0.5 * (x - c) @ Q @ (x - c)
        xs = c
        x0 = xs + sp["dist"] * d
    elif fam == "box":
        Q = build_q(sp["Q"], n)
        xs = np.array(sp["xs"], float)
        pat = sp["pat"]
        mu = np.array(sp["mu"], float)
        grad = np.array([mu[i] if pat[i] == "lb" else (-mu[i] if pat[i] == "ub" else 0.0) for i in range(n)])
        c = xs - np.linalg.solve(Q, grad)
        lb = np.array([xs[i] if pat[i] == "lb" else xs[i] - float(sp["gap_lo"][i]) for i in range(n)])
        ub = np.array([xs[i] if pat[i] == "ub" else xs[i] + float(sp["gap_hi"][i]) for i in range(n)])
        ref = box_qp_enumerate(Q, c, lb, ub)
        if ref is None or np.linalg.norm(ref - xs) > 1e-8 * max(1.0, np.linalg.norm(xs)):
            return None
        fun = lambda x: 0.5 * (x - c) @ Q @ (x - c)
        x0 = xs + sp["dist"] * d
        if sp.get("x0_on_bound"):
            x0 = np.clip(x0, lb, ub)
        kw["bounds"] = Bounds(lb, ub)
        viol = lambda x: float(max(np.max(lb - x), np.max(x - ub), 0.0))
    elif fam == "lineq":
        Q = build_q(sp["Q"], n)
        A = np.array(sp["A"], float)
        m = A.shape[0]
        if np.linalg.matrix_rank(A) < m or np.linalg.cond(A) > 10:
            return None
        c = np.array(sp["c"], float)
        b = A @ np.array(sp["xf"], float)
        K = np.block([[Q, A.T], [A, np.zeros((m, m))]])
        xs = np.linalg.solve(K, np.r_[Q @ c, b])[:n]
        fun = lambda x: 0.5 * (x - c) @ Q @ (x - c)
        x0 = xs + sp["dist"] * d
        kw["constraints"] = LinearConstraint(A, b, b)
        viol = lambda x: float(np.max(np.abs(A @ x - b)))
    elif fam == "interval":
        q, c = sp["q"], sp["c"]
        lo, hi = float(sp["lb"]), float(sp["ub"])
        rows = sp["lin"]
        L, U = lo, hi
        for a, bb in rows:
            if a > 0:
                U = min(U, bb / a)
            else:
                L = max(L, bb / a)
        if not (L + 0.05 <= U):
            return None
        xs = np.array([min(max(c, L), U)])
        fun = lambda x: 0.5 * q * (x[0] - c) ** 2
        if sp["x0_side"] < 0:
            base = L if np.isfinite(L) else xs[0]
            x0 = np.array([base - sp["dist"]])
        else:
            base = U if np.isfinite(U) else xs[0]
            x0 = np.array([base + sp["dist"]])
        if sp.get("x0_on_bound"):
            x0 = np.clip(x0, lo, hi)
        if np.isfinite(lo) or np.isfinite(hi):
            kw["bounds"] = Bounds([lo], [hi])
        if rows:
            kw["constraints"] = LinearConstraint(np.array([[a] for a, _ in rows]), -np.inf,
                                                 np.array([bb for _, bb in rows]))
        viol = lambda x: float(max([lo - x[0], x[0] - hi, 0.0] + [a * x[0] - bb for a, bb in rows]))
    else:  # ball
        g = np.array(sp["g"], float)
        ctr = np.array(sp["ctr"], float)
        r = sp["r"]
        xs = ctr - r * g / np.linalg.norm(g)
        fun = lambda x: g @ x
        x0 = ctr + (r + sp["dist"]) * d if sp["dist"] > 0.5 else ctr + sp["dist"] * d
        kw["constraints"] = NonlinearConstraint(lambda x: np.sum((x - ctr) ** 2), -np.inf, r ** 2)
        viol = lambda x: float(max(np.sum((x - ctr) ** 2) - r ** 2, 0.0))
    return {"fun": fun, "x0": x0, "kw": kw, "xs": xs, "viol": viol}


def run_case(spec):
    import cobyqa
    import cobyqa.framework as cframework

    out = Outcome()
    inst = make_instance(spec)
    fam = spec["family"]
    if inst is None:
        out.label("rejected-by-harness:" + fam)
        return out
    out.label("fam:" + fam, "n=%d" % spec["n"], "dist=%s" % spec["dist"])
    # tap: resolution at every iteration (for the signature of the known finding D16)
    res_log = []
    orig = cframework.TrustRegion.get_trust_region_step

    step_log = []

    base_log = []

    def tap(fw, options):
        res_log.append((fw.resolution, options["radius_final"]))
        try:
            base_log.append(float(np.linalg.norm(fw.x_best - fw.models.interpolation.x_base)) / float(fw.radius))
        except Exception:
            base_log.append(math.nan)
        st_ = orig(fw, options)
        step_log.append((float(np.linalg.norm(st_[0] + st_[1])), fw.resolution, np.array(fw.x_best, copy=True)))
        return st_

    geo_log = []  # (number of trust-region steps made so far, index replaced) per geometry step
    orig_geo = cframework.TrustRegion.get_geometry_step

    def tap_geo(fw, k_new, options):
        geo_log.append((len(res_log), int(k_new)))
        return orig_geo(fw, k_new, options)

    import cobyqa.models as cmodels

    ill_log = []  # (number of trust-region steps made so far, ill-conditioning reported) per update of the set
    orig_upd = cmodels.Models.update_interpolation

    def tap_upd(models, *a, **k):
        r_ = orig_upd(models, *a, **k)
        ill_log.append((len(res_log), bool(r_)))
        return r_

    cframework.TrustRegion.get_trust_region_step = tap
    cframework.TrustRegion.get_geometry_step = tap_geo
    cmodels.Models.update_interpolation = tap_upd
    try:
        with np.errstate(all="ignore"):
            try:
                r = cobyqa.minimize(inst["fun"], inst["x0"], **inst["kw"])
            except Exception as exc:  # judged by C08; here it is simply not a solution
                out.fail("C04.exc", "minimize raised %s: %s" % (type(exc).__name__, exc), family=fam)
                return out
    finally:
        cframework.TrustRegion.get_trust_region_step = orig
        cframework.TrustRegion.get_geometry_step = orig_geo
        cmodels.Models.update_interpolation = orig_upd
    xs = inst["xs"]
    err = float(np.linalg.norm(r.x - xs) / max(1.0, np.linalg.norm(xs)))
    v = inst["viol"](np.asarray(r.x, float))
    out.ratio("err/tol:" + fam, err / TOLS[fam])
    out.nontrivial = True
    out.sample = {"spec": spec, "status": int(r.status), "nfev": int(r.nfev), "err": err, "maxcv": float(r.maxcv)}
    out.label("status%d" % r.status)
    # length of the final run of iterations during which the resolution did not change
    stagnation = 0
    for a, _ in reversed(res_log):
        if a != res_log[-1][0]:
            break
        stagnation += 1
    # length of the final run of trial steps that were too short to be evaluated (<= half the resolution)
    short = 0
    for sn, rs, _ in reversed(step_log):
        if not (0.0 < sn <= 0.5 * rs):
            break
        short += 1
    # geometry steps during that final run, and how many different indices they replaced
    first_it = len(res_log) - stagnation
    final_geo = [k for it, k in geo_log if it > first_it]
    final_ill = [flag for it, flag in ill_log if it > first_it]
    final_base = [v for v in base_log[first_it:] if v == v]
    centre_err = centre_viol = None
    if step_log and step_log[-1][2].shape == xs.shape:
        centre = step_log[-1][2]
        centre_err = float(np.linalg.norm(centre - xs) / max(1.0, np.linalg.norm(xs)))
        centre_viol = inst["viol"](centre)
    data = dict(family=fam, status=int(r.status), success=bool(r.success), err=err, viol=v, nfev=int(r.nfev),
                final_unevaluated_short_steps=short, centre_err=centre_err, centre_viol=centre_viol,
                final_iterations_at_constant_resolution=stagnation, n=spec["n"],
                final_geometry_steps=len(final_geo), final_geometry_indices=len(set(final_geo)),
                final_updates=len(final_ill), final_ill_conditioned_updates=int(sum(final_ill)),
                final_max_base_distance_over_radius=(max(final_base) if final_base else None),
                last_resolution=float(res_log[-1][0]) if res_log else None)
    if err > TOLS[fam]:
        out.fail("C04.dist." + fam, "%s instance (n=%d): returned point at relative distance %.3g from the "
                 "minimiser (threshold %g), status %d success %s nfev %d"
                 % (fam, spec["n"], err, TOLS[fam], r.status, r.success, r.nfev), **data)
    elif v > FEAS_TOL or not (r.maxcv <= FEAS_TOL):
        out.fail("C04.feas." + fam, "%s instance: returned point violates the constraints by %.3g (maxcv %.3g)"
                 % (fam, v, r.maxcv), **data)
    elif r.status != 0 or not r.success:
        out.fail("C04.status." + fam, "%s instance (n=%d): the minimiser was found (distance %.3g) but status=%d "
                 "success=%s after %d evaluations" % (fam, spec["n"], err, r.status, r.success, r.nfev), **data)
    return out


def sig_short_step_infeasible(spec, fail):
    """KF-C04-2: linear equalities; the centre of the trust region ends within 1e-7 of the minimiser
    but violates the equalities by a few 1e-8 (above feasibility_tol); the step that would restore
    feasibility is shorter than half the resolution, so it is never evaluated and the resolution is
    reduced down to radius_final: status 0, success=False, and the filter returns the evaluated point
    of least penalised merit (within 1e-2 of the minimiser)."""
    d = fail.data
    ce, cv = d.get("centre_err"), d.get("centre_viol")
    return (fail.clause in ("C04.feas.lineq", "C04.dist.lineq", "C04.status.lineq") and d.get("status") == 0
            and d.get("err", 1) <= 1e-2 and FEAS_TOL < d.get("viol", 1) <= 1e-2
            and ce is not None and ce <= 1e-6 and FEAS_TOL < cv <= 1e-5
            and d.get("final_unevaluated_short_steps", 0) >= 1)


def sig_geometry_cycle(spec, fail):
    """KF-C04-4: the minimiser has been found (1e-6) and the resolution has reached radius_final, but the run does
    not stop: a rejected trust-region step alternates with a geometry step (nine iterations in ten at least) until
    maxfev (status 5).  Two variants have been seen: the interpolation set has become singular (two points
    coincide - a geometry step limited by the bounds or by the constraints lands on an existing point - and every
    update reports an ill-conditioned system, which forces the next geometry step), or an interpolation point
    keeps being re-created at twice the resolution from the best point, just beyond the distance test that sends
    the solver to the geometry branch.  The base point is where it should be (within 10 radii of the best point),
    which tells these cycles from one caused by a base point left behind."""
    d = fail.data
    it = d.get("final_iterations_at_constant_resolution", 0)
    upd = d.get("final_updates", 0)
    bd = d.get("final_max_base_distance_over_radius")
    return (fail.clause.startswith("C04.status.") and d.get("status") == 5 and d.get("err", 1) <= 1e-6
            and it >= 100 and d.get("final_geometry_steps", 0) >= 0.9 * it
            and upd >= 100 and bd is not None and bd < 10.0)


SIGNATURES = {
    "status5_rejected_step_and_geometry_step_alternate_at_final_resolution": sig_geometry_cycle,
    "lineq_status0_short_steps_never_evaluated_equality_violation_above_tol": sig_short_step_infeasible,
}
