"""Problem grammar: Hypothesis strategies producing JSON-serialisable *specs* of a `minimize`
call, and the deterministic factory that builds the call (with user-space spies) from a spec.

Nothing here draws randomness outside Hypothesis; `build(spec)` is a pure function.
"""
import functools
import math

import numpy as np
from hypothesis import strategies as st
from scipy.optimize import Bounds, LinearConstraint, NonlinearConstraint

from .engine import dec, enc

EPS = np.finfo(float).eps
INF = float("inf")

# ---------------------------------------------------------------------------------------------
# function families (deterministic, defined by plain-data parameters)


def eval_obj(o, x):
    k = o["kind"]
    if k == "quad" or k == "noisy":
        c = np.asarray(o["c"], float)
        d = x - c
        v = 0.5 * d @ np.asarray(o["Q"], float) @ d + np.asarray(o["g"], float) @ x
        if k == "noisy":
            v = v + o["amp"] * math.sin(o["freq"] * float(np.sum(x)))
        return v
    if k == "lin":
        return np.asarray(o["g"], float) @ x
    if k == "abs":
        return float(np.sum(np.asarray(o["w"], float) * np.abs(x - np.asarray(o["c"], float))))
    if k == "rosen":
        if x.size == 1:
            return (1.0 - x[0]) ** 2
        return float(np.sum(o["a"] * (x[1:] - x[:-1] ** 2) ** 2 + (1.0 - x[:-1]) ** 2))
    if k == "const":
        return float(o["v"])
    raise ValueError(k)


def eval_comp(c, x):
    k = c["kind"]
    if k == "ball":
        return float(np.sum((x - np.asarray(c["c"], float)) ** 2))
    if k == "prod":
        return float(x[0] * x[-1] + x[0])
    if k == "sin":
        return float(math.sin(x[0]) + 0.5 * np.sum(x[1:]))
    if k == "sinf":
        return float(math.sin(c["w"] * x[0]) + 0.5 * np.sum(x[1:]))
    if k == "aff":
        return float(np.asarray(c["a"], float) @ x)
    if k == "const":
        return float(c["v"])
    raise ValueError(k)


def wrap_ret(v, how):
    if how == "float":
        return float(v)
    if how == "np":
        return np.float64(v)
    if how == "arr0":
        return np.array(float(v))
    if how == "arr1":
        return np.array([float(v)])
    return float(v)


# ---------------------------------------------------------------------------------------------
# spies


class Log:
    """Ground truth: every call of a user function, in order."""

    def __init__(self):
        self.events = []  # (seq, kind, idx, x, val)
        self.ncalls = {}
        # calls in which a user function did not receive the extra arguments its owner stated
        # (`args=` of minimize, "args" of a dict constraint): (kind, idx, received, stated)
        self.args_mismatch = []

    def add(self, kind, idx, x, val):
        self.events.append((len(self.events), kind, idx, np.array(x, dtype=float, copy=True), val))

    def calls(self, kind, idx=None):
        return [e for e in self.events if e[1] == kind and (idx is None or e[2] == idx)]


def fault_value(faults, fn, comp, call_idx, x, v):
    for f in faults:
        if f["fn"] != fn or f.get("comp", 0) != comp:
            continue
        at = f["at"]
        hit = False
        if "calls" in at:
            hit = call_idx in at["calls"]
        elif "half" in at:
            hit = float(np.asarray(at["half"]["a"], float) @ x) > at["half"]["b"]
        if hit:
            return float(f["value"])
    return v


class Built:
    pass


def build(spec, log=None, lookup=None, hook=None):
    """Build the arguments of `minimize` from a spec.

    `lookup` (optional) replaces the functions by look-up tables over a previous log (C06).
    """
    spec = dec(spec)
    b = Built()
    b.spec = spec
    b.log = log if log is not None else Log()
    lg = b.log
    n = spec["n"]
    faults = spec.get("faults", [])
    # restatements (C10): the user functions of this statement evaluate the base functions at
    # the lifted point X(y); lg.lifted[seq] records X(y) for every logged call
    lift = spec.get("lift")
    lg.lifted = {}
    if lift is None:
        X = lambda y: np.asarray(y, float)
    elif lift["kind"] == "fixed":
        mask = np.array(lift["mask"], bool)
        vals = np.array(lift["vals"], float)

        def X(y):
            x = np.empty(mask.size)
            x[mask] = vals
            x[~mask] = y
            return x
    elif lift["kind"] == "affine":
        fac = np.array(lift["factor"], float)
        shf = np.array(lift["shift"], float)
        clo = np.array(lift["lb"], float)
        chi = np.array(lift["ub"], float)

        def X(y):
            return np.clip(np.asarray(y, float) * fac + shf, clo, chi)
    else:
        raise ValueError(lift["kind"])
    b.X = X
    b.n = n
    # the same data in the array-like forms a caller may use (the alternative forms fall back to the plain
    # one when the data cannot be represented exactly in them)
    xf_ = spec.get("x0_form", "list")
    x0a = np.array(spec["x0"], float)
    if xf_ == "list":
        b.x0 = list(spec["x0"])
    elif xf_ == "tuple":
        b.x0 = tuple(float(v) for v in spec["x0"])
    elif xf_ == "int" and np.all(np.isfinite(x0a)) and np.all(x0a == np.round(x0a)) and np.all(np.abs(x0a) < 2.0 ** 50):
        b.x0 = x0a.astype(np.int64)
    elif xf_ == "f32" and np.all(x0a.astype(np.float32).astype(float) == x0a):
        b.x0 = x0a.astype(np.float32)
    else:
        b.x0 = x0a
    b.lb = np.array(spec["lb"], float)
    b.ub = np.array(spec["ub"], float)
    form = spec.get("bounds_form", "Bounds")
    if form == "none":
        b.bounds = None
    elif form == "array":
        b.bounds = np.column_stack([b.lb, b.ub])
    elif form == "pairs":
        b.bounds = [(float(l), float(u)) for l, u in zip(b.lb, b.ub)]
    elif form == "lists":
        b.bounds = [[float(l), float(u)] for l, u in zip(b.lb, b.ub)]
    elif form == "Bounds_kf":
        b.bounds = Bounds(b.lb.copy(), b.ub.copy(), keep_feasible=True)
    elif form == "Bounds_list":
        b.bounds = Bounds([float(l) for l in b.lb], [float(u) for u in b.ub])
    else:
        b.bounds = Bounds(b.lb.copy(), b.ub.copy())

    # objective
    o = spec["obj"]
    counters = {"obj": 0}
    if o["kind"] == "none":
        b.fun = None
    else:
        args = tuple(o.get("args", ()))

        def fun(x, *a):
            if hook is not None:
                hook("obj")
            x = np.asarray(x)
            k = counters["obj"]
            counters["obj"] += 1
            if tuple(a) != args and len(lg.args_mismatch) < 8:
                lg.args_mismatch.append(("obj", 0, list(a), list(args)))
            if lookup is not None:
                v = lookup("obj", 0, k, x)
            else:
                xs = X(x)
                v = eval_obj(o, xs)
                for t in a:
                    v = v + t
                v = fault_value(faults, "obj", 0, k, xs, v)
            if lift is not None:
                lg.lifted[len(lg.events)] = X(x)
            lg.add("obj", 0, x, float(np.squeeze(v)))
            if o.get("mutate"):
                # an objective that works in place on the array it is given
                try:
                    x[...] = 7.0 * np.asarray(x, float) + 1.0
                except (ValueError, TypeError):
                    pass
            return wrap_ret(v, o.get("ret", "float"))

        b.fun = fun
        b.args = args

    # constraints
    cons = []
    b.lin = []
    for L in spec.get("lin", []):
        A = np.array(L["A"], float).reshape(-1, n)
        af_ = L.get("A_form", "float")
        A_arg = A
        if af_ == "list":
            A_arg = [[float(v) for v in row] for row in A]
        elif af_ == "int" and np.all(np.isfinite(A)) and np.all(A == np.round(A)):
            A_arg = A.astype(np.int64)
        elif af_ == "1d" and A.shape[0] == 1:
            A_arg = A[0].copy()
        as_l = (lambda v: [float(t) for t in v]) if L.get("limits_form") == "list" else (lambda v: np.array(v, float))
        lc = LinearConstraint(A_arg, as_l(L["lb"]) if not L.get("lb_scalar") else float(L["lb"][0]),
                              as_l(L["ub"]) if not L.get("ub_scalar") else float(L["ub"][0]))
        b.lin.append((A, np.array(L["lb"], float), np.array(L["ub"], float)))
        cons.append(("lin", L.get("pos", 0), lc))
    b.nl = []
    cfuns = []
    shared_targets = {int(N_["share_with"]) for N_ in spec.get("nl", []) if N_.get("share_with") is not None}
    for i, N in enumerate(spec.get("nl", [])):
        comps = N["comps"]
        nlargs = tuple(N.get("args", ()))
        counters[("nl", i)] = 0

        def cfun(x, *a, i=i, comps=comps, N=N):
            if hook is not None:
                hook("nl")
            x = np.asarray(x)
            k = counters[("nl", i)]
            counters[("nl", i)] += 1
            if tuple(a) != tuple(N.get("args", ())) and i not in shared_targets and len(lg.args_mismatch) < 8:
                lg.args_mismatch.append(("nl", i, list(a), list(N.get("args", ()))))
            if lookup is not None:
                vals = lookup("nl", i, k, x)
            else:
                xf = X(x)
                vals = []
                for j, c in enumerate(comps):
                    v = eval_comp(c, xf)
                    for t in a:
                        v = v + t
                    vals.append(fault_value(faults, N.get("fault_name", "nl%d" % i), c.get("fault_comp", j), k, xf, v))
                vals = np.array(vals, float)
            if lift is not None:
                lg.lifted[len(lg.events)] = X(x)
            lg.add("nl", i, x, np.array(vals, float, copy=True))
            if N.get("mutate"):
                try:
                    x[...] = -3.0 * np.asarray(x, float) - 2.0
                except (ValueError, TypeError):
                    pass
            if N.get("scalar") and len(comps) == 1:
                return float(vals[0])
            if N.get("ret") == "list":
                return [float(v) for v in vals]
            return np.array(vals, float)

        # "share_with": j - use the very function object of the j-th constraint (same components), as a user
        # does who writes NonlinearConstraint(f, a, inf) ... NonlinearConstraint(f, -inf, b) with one f
        cfuns.append(cfun)
        if N.get("share_with") is not None and 0 <= int(N["share_with"]) < i:
            cfun = cfuns[int(N["share_with"])]
        m = len(comps)
        if N.get("form", "NC") == "dict":
            d = {"type": N["type"], "fun": cfun}
            if nlargs:
                d["args"] = nlargs
            obj = d
            lo = np.zeros(m)
            hi = np.zeros(m) if N["type"] == "eq" else np.full(m, INF)
        else:
            lo = np.array(N["lb"], float)
            hi = np.array(N["ub"], float)
            l_arg = float(lo[0]) if N.get("lb_scalar") else lo.copy()
            u_arg = float(hi[0]) if N.get("ub_scalar") else hi.copy()
            if nlargs:
                obj = NonlinearConstraint(functools.partial(_with_args, cfun, nlargs), l_arg, u_arg)
            else:
                obj = NonlinearConstraint(cfun, l_arg, u_arg)
        b.nl.append((lo, hi, nlargs))
        cons.append(("nl", N.get("pos", 100 + i), obj))
    cons.sort(key=lambda t: t[1])
    clist = [c[2] for c in cons]
    cf = spec.get("cons_form", "list")
    if cf == "single" and len(clist) == 1:
        b.constraints = clist[0]
    elif cf == "tuple":
        b.constraints = tuple(clist)
    else:
        b.constraints = clist

    # callback
    cb = spec.get("callback") or {"form": "none"}
    b.callback = make_callback(cb, lg, hook)
    b.options = dict(spec.get("options", {}))
    b.constants = dict(spec.get("constants", {}))
    return b


def _with_args(f, args, x):
    return f(x, *args)


class _CbPos:
    def __init__(self, core):
        self.core = core

    def __call__(self, xk):
        return self.core(xk, None)


class _CbKw:
    def __init__(self, core):
        self.core = core

    def __call__(self, intermediate_result):
        return self.core(intermediate_result.x, intermediate_result)


class _CbMethods:
    def __init__(self, core):
        self.core = core

    def pos(self, xk):
        return self.core(xk, None)

    def kw(self, intermediate_result):
        return self.core(intermediate_result.x, intermediate_result)


def _cb_partial_pos(core, xk):
    return core(xk, None)


def _cb_partial_kw(core, intermediate_result):
    return core(intermediate_result.x, intermediate_result)


def make_callback(cb, lg, hook=None):
    form = cb.get("form", "none")
    if form == "none":
        return None
    state = {"k": 0}

    def core(x, ir):
        if hook is not None:
            hook("cb")
        state["k"] += 1
        fun = None if ir is None else ir.get("fun", None)
        lg.add("cb", 0, x, (None if fun is None else float(fun), ir is not None))
        if cb.get("overwrite"):
            try:
                x[...] = np.nan
            except Exception:
                lg.add("cb_readonly", 0, np.zeros(0), None)
        if cb.get("stop_at") is not None and state["k"] == cb["stop_at"]:
            raise StopIteration
        if cb.get("junk"):
            return "junk"
        return None

    if form == "pos":
        def callback(xk):
            return core(xk, None)
        return callback
    if form == "kw":
        def callback(intermediate_result):
            return core(intermediate_result.x, intermediate_result)
        return callback
    if form == "lambda_pos":
        return lambda xk: core(xk, None)
    if form == "lambda_kw":
        return lambda intermediate_result: core(intermediate_result.x, intermediate_result)
    if form == "obj_pos":
        return _CbPos(core)
    if form == "obj_kw":
        return _CbKw(core)
    if form == "method_pos":
        return _CbMethods(core).pos
    if form == "method_kw":
        return _CbMethods(core).kw
    if form == "kwonly_kw":
        def callback(*, intermediate_result):
            return core(intermediate_result.x, intermediate_result)
        return callback
    if form == "partial_pos":
        return functools.partial(_cb_partial_pos, core)
    if form == "partial_kw":
        return functools.partial(_cb_partial_kw, core)
    raise ValueError(form)


CB_KW_FORMS = ("kw", "lambda_kw", "obj_kw", "partial_kw", "method_kw", "kwonly_kw")
CB_FORMS = ["pos", "kw", "lambda_pos", "lambda_kw", "obj_pos", "obj_kw", "partial_pos", "partial_kw", "method_pos",
            "method_kw", "kwonly_kw"]

# ---------------------------------------------------------------------------------------------
# the user's statement of the constraints, evaluated by the harness


def true_violation(b, x, nl_vals):
    """Largest violation at user-space point x of the constraints as the user stated them.

    nl_vals[i] is the raw vector the i-th nonlinear function returned at x.  Returns
    (value, tol): tol bounds the rounding of the harness' and of any equivalent computation.
    NaN limits mean no limit, NaN coefficients count as 0, NaN values propagate.
    """
    x = np.asarray(x, float)
    worst = 0.0
    tol = 0.0
    nan = False

    def upd(viol, mag):
        nonlocal worst, tol, nan
        for v, m in zip(np.atleast_1d(viol), np.atleast_1d(mag)):
            if math.isnan(v):
                nan = True
            elif v > worst:
                worst = v
            tol = max(tol, m)

    lb = np.where(np.isnan(b.lb), -INF, b.lb)
    ub = np.where(np.isnan(b.ub), INF, b.ub)
    if np.any(lb > ub) or np.any(lb == INF) or np.any(ub == -INF):
        upd(np.maximum(lb - x, 0) + np.maximum(x - ub, 0), np.zeros(x.size))
    for A, lo, hi in b.lin:
        A = np.where(np.isnan(A), 0.0, A)
        ax = A @ x
        mag = np.abs(A) @ (np.abs(x) + _finite_abs(lb) + _finite_abs(ub)) + 1.0
        lo = np.where(np.isnan(lo), -INF, np.broadcast_to(lo, ax.shape))
        hi = np.where(np.isnan(hi), INF, np.broadcast_to(hi, ax.shape))
        upd(_interval_violation(ax, lo, hi), mag + _finite_abs(lo) + _finite_abs(hi))
    for (lo, hi, _), v in zip(b.nl, nl_vals):
        v = np.atleast_1d(np.asarray(v, float))
        lo = np.where(np.isnan(lo), -INF, np.broadcast_to(lo, v.shape))
        hi = np.where(np.isnan(hi), INF, np.broadcast_to(hi, v.shape))
        viol = _interval_violation(v, lo, hi)
        upd(viol, np.abs(np.nan_to_num(v, nan=0.0, posinf=0.0, neginf=0.0)) + _finite_abs(lo) + _finite_abs(hi))
    if nan:
        return float("nan"), tol
    return float(worst), tol


def _interval_violation(v, lo, hi):
    """max(lo - v, v - hi, 0) per component; an infinite limit is no limit (whatever v is); a NaN
    value violates (NaN) every component that has at least one finite limit."""
    with np.errstate(all="ignore"):
        low = np.where(lo > -INF, lo - v, -INF)
        upp = np.where(hi < INF, v - hi, -INF)
    viol = np.maximum(np.maximum(low, upp), 0.0)
    return np.where(np.isnan(v) & ((lo > -INF) | (hi < INF)), np.nan, viol)


def _finite_abs(a):
    a = np.abs(np.asarray(a, float))
    return np.where(np.isfinite(a), a, 0.0)


# ---------------------------------------------------------------------------------------------
# strategies


def dy(lo, hi, den=8):
    return st.integers(int(lo * den), int(hi * den)).map(lambda k: k / den)


def wsample(pairs):
    """sampled_from with integer weights."""
    pool = []
    for v, w in pairs:
        pool.extend([v] * w)
    return st.sampled_from(pool)


DEFAULT_PROFILE = dict(
    ns=[(1, 3), (2, 5), (3, 3), (4, 1), (5, 1)],
    bound_pats=[("free", 3), ("lower", 2), ("upper", 2), ("two", 4), ("fixed", 2), ("narrow", 2),
                ("nanl", 1), ("nanu", 1)],
    bad_bounds=0,          # weight of an inconsistent pair (lb > ub) per variable
    all_fixed=0,           # percentage of cases with every variable fixed
    x0_pats=[("in", 4), ("lb", 2), ("ub", 2), ("below", 2), ("above", 2)],
    obj_kinds=[("quad", 5), ("lin", 2), ("abs", 1), ("rosen", 1), ("noisy", 1), ("const", 1), ("none", 1)],
    max_lin=2,
    max_nl=2,
    nl_forms=[("NC", 1)],
    faults=0,              # percentage of cases carrying a fault plan
    maxfev=(1, 60),
    opt_prob=35,           # percentage for each optional option to be supplied
    callback_prob=30,
    stop_prob=0,
    scale_prob=35,
    debug_prob=10,
    disp_prob=0,
    target_prob=0,
    infeasible_prob=15,    # percentage of general constraints generated with negative slack
    radius_extreme=0,      # percentage of cases with a tiny / huge initial radius
    x0_huge=0,
)


@st.composite
def problems(draw, profile=None):
    P = dict(DEFAULT_PROFILE)
    if profile:
        P.update(profile)
    pct = lambda p: draw(st.integers(0, 99)) < p
    n = draw(wsample(P["ns"]))
    all_fixed = pct(P["all_fixed"])
    # most data are dyadic (exact restatements, exact ties); a share of the cases uses decimal
    # bounds (k/100), which are not representable, so that one-ulp overshoots of a bound by
    # scaling / unscaling / step arithmetic can show
    decimal = pct(P.get("decimal_prob", 25))
    lb, ub, pats = [], [], []
    for i in range(n):
        pat = "fixed" if all_fixed else draw(wsample(P["bound_pats"] + ([("bad", P["bad_bounds"])] if P["bad_bounds"] else [])))
        if decimal:
            a = draw(st.integers(-400, 400)) / 100
            w = draw(st.sampled_from([0.07, 0.3, 0.6, 1.2, 2.1, 3.3]))
        else:
            a = draw(dy(-4, 4))
            w = draw(wsample([(0.125, 1), (0.25, 1), (0.5, 2), (1.0, 3), (2.0, 3), (4.0, 2), (6.5, 1)]))
        if pat == "free":
            l, u = -INF, INF
        elif pat == "lower":
            l, u = a, INF
        elif pat == "upper":
            l, u = -INF, a
        elif pat == "two":
            l, u = a, a + w
        elif pat == "fixed":
            l, u = a, a
        elif pat == "narrow":
            l, u = a, a + draw(st.sampled_from([0.11, 0.3, 0.7] if decimal else [0.125, 0.25, 0.5, 1.0]))
        elif pat == "nanl":
            l, u = float("nan"), a
        elif pat == "nanu":
            l, u = a, float("nan")
        elif pat == "bad":
            l, u = a + w, a
        lb.append(l)
        ub.append(u)
        pats.append(pat)
    if not all_fixed and all(p == "fixed" for p in pats) and not P["all_fixed"]:
        # keep at least one free variable unless the profile asks for all-fixed cases
        lb[0], ub[0], pats[0] = -INF, INF, "free"
    # reference point inside the box and starting point
    xref, x0 = [], []
    for i in range(n):
        l = -INF if (isinstance(lb[i], float) and math.isnan(lb[i])) else lb[i]
        u = INF if (isinstance(ub[i], float) and math.isnan(ub[i])) else ub[i]
        if l > u:
            l, u = u, l
        lo = l if l > -INF else (u - 4 if u < INF else -3)
        hi = u if u < INF else (l + 4 if l > -INF else 3)
        r = lo + (hi - lo) * draw(st.integers(0, 8)) / 8
        xref.append(r)
        xp = draw(wsample(P["x0_pats"]))
        if xp == "in":
            v = lo + (hi - lo) * draw(st.integers(0, 8)) / 8
        elif xp == "ref":
            v = r  # start at the reference point the constraint limits are drawn around
        elif xp == "lb":
            v = lo
        elif xp == "ub":
            v = hi
        elif xp == "below":
            v = lo - draw(st.sampled_from([0.125, 1.0, 5.0, 50.0]))
        else:
            v = hi + draw(st.sampled_from([0.125, 1.0, 5.0, 50.0]))
        if P["x0_huge"] and pct(P["x0_huge"]):
            v = draw(st.sampled_from([1e-300, -1e-300, 1e300, -1e300, 1e16, -1e16, 1e-17]))
        x0.append(v)
    xr = np.array(xref, float)

    # objective
    kind = draw(wsample(P["obj_kinds"]))
    obj = {"kind": kind}
    if kind in ("quad", "noisy"):
        r = draw(st.integers(0, n))
        Lm = [[draw(st.integers(-2, 2)) for _ in range(r)] for _ in range(n)]
        dsh = draw(st.sampled_from([0.0, 0.5, 1.0, 1.0, 2.0, -0.5]))
        Q = (np.array(Lm, float).reshape(n, r) @ np.array(Lm, float).reshape(n, r).T + dsh * np.eye(n)).tolist()
        obj.update(Q=Q, c=[draw(dy(-3, 3)) for _ in range(n)], g=[draw(dy(-2, 2)) for _ in range(n)])
        if kind == "noisy":
            obj.update(amp=draw(st.sampled_from([1e-3, 1e-6, 0.125])), freq=draw(st.sampled_from([1e3, 1e6])))
    elif kind == "lin":
        obj.update(g=[draw(dy(-2, 2)) for _ in range(n)])
    elif kind == "abs":
        obj.update(w=[draw(dy(0, 2)) for _ in range(n)], c=[draw(dy(-3, 3)) for _ in range(n)])
    elif kind == "rosen":
        obj.update(a=draw(st.sampled_from([1.0, 10.0, 100.0])))
    elif kind == "const":
        obj.update(v=draw(st.sampled_from([0.0, 1.0, -2.5])))
    if kind != "none":
        obj["ret"] = draw(wsample([("float", 5), ("np", 2), ("arr0", 1), ("arr1", 1)]))
        if pct(10):
            obj["args"] = [draw(dy(-1, 1))]
        if pct(P.get("mutate_prob", 0)):
            obj["mutate"] = True

    def limits(v, allow_eq=True):
        """limits for a value v at the reference point: pattern and slack."""
        pat = draw(wsample(P.get("limit_pats") or [("le", 4), ("ge", 3), ("two", 3), ("eq", 2 if allow_eq else 0), ("free", 1), ("nanl", 1), ("nanu", 1)]))
        neg = pct(P["infeasible_prob"])
        s1 = draw(st.sampled_from(P.get("slacks") or [0.0, 0.125, 0.5, 1.0, 2.0]))
        s2 = draw(st.sampled_from([0.125, 0.5, 1.0, 2.0]))
        if neg:
            s1 = -draw(st.sampled_from([0.125, 0.5, 2.0]))
        if pat == "le":
            return -INF, v + s1
        if pat == "ge":
            return v - s1, INF
        if pat == "two":
            return (v - s1, v - s1 + s2) if not neg else (v + 0.125, v + 0.125 + s2)
        if pat == "eq":
            e = v + (0.0 if not neg else 0.5)
            return e, e
        if pat == "free":
            return -INF, INF
        if pat == "nanl":
            return float("nan"), v + s1
        return v - s1, float("nan")

    lin = []
    for _ in range(draw(st.integers(0, P["max_lin"]))):
        m = draw(wsample([(1, 4), (2, 3), (3, 1)]))
        A = [[draw(st.sampled_from(P.get("lin_entries") or [-2, -1, 0, 1, 2])) for _ in range(n)] for _ in range(m)]
        if m >= 2 and pct(20):
            A[1] = list(A[0])  # duplicated row
        lo, hi = [], []
        for row in A:
            v = float(np.array(row, float) @ xr)
            a_, b_ = limits(v)
            lo.append(a_)
            hi.append(b_)
        L = {"A": A, "lb": lo, "ub": hi, "pos": draw(st.integers(0, 9))}
        if m == 1 or len(set(map(str, lo))) == 1:
            L["lb_scalar"] = pct(30)
        if m == 1 or len(set(map(str, hi))) == 1:
            L["ub_scalar"] = pct(30)
        lin.append(L)
    nl = []
    # "dict family": two or three dict constraints, each with its own `args` (the conversion of dict
    # constraints binds function and arguments per constraint; a mix-up needs several of them)
    dictfam = P["max_nl"] >= 2 and pct(P.get("dict_family", 6))
    n_nl = draw(st.integers(2, max(2, min(3, P["max_nl"])))) if dictfam else \
        draw(st.integers(min(P.get("min_nl", 0), P["max_nl"]), P["max_nl"]))
    for _ in range(n_nl):
        form = "dict" if dictfam else draw(wsample(P["nl_forms"]))
        m = draw(wsample([(1, 5), (2, 3), (3, 1), (4, 1)]))
        comps = []
        for _ in range(m):
            ck = draw(wsample(P.get("comp_kinds") or [("ball", 4), ("prod", 2), ("sin", 2), ("aff", 2), ("sinf", 1)]))
            c = {"kind": ck}
            if ck == "sinf":
                c["w"] = draw(st.sampled_from([2.0, 4.0, 8.0]))
            if ck == "ball":
                c["c"] = [draw(dy(-2, 2)) for _ in range(n)]
            elif ck == "aff":
                c["a"] = [draw(st.integers(-2, 2)) for _ in range(n)]
            comps.append(c)
        N = {"comps": comps, "form": form, "pos": draw(st.integers(0, 9))}
        if form == "dict":
            N["type"] = draw(wsample([("ineq", 3), ("eq", 1)]))
            # dict constraints mean fun >= 0 / fun == 0: shift each component by an `args` entry
            # so that the reference point is (in)feasible by a drawn slack
            N["args"] = [draw(dy(-2, 2))] if (dictfam or pct(50)) else []
        else:
            lo, hi = [], []
            for c in comps:
                a_, b_ = limits(eval_comp(c, xr))
                lo.append(a_)
                hi.append(b_)
            N["lb"], N["ub"] = lo, hi
            if m == 1 or len(set(map(str, lo))) == 1:
                N["lb_scalar"] = pct(30)
            if m == 1 or len(set(map(str, hi))) == 1:
                N["ub_scalar"] = pct(30)
            if pct(10):
                N["args"] = [draw(dy(-1, 1))]
        if m == 1:
            N["scalar"] = pct(50)
        elif pct(30):
            N["ret"] = "list"
        if pct(P.get("mutate_prob", 0)):
            N["mutate"] = True
        nl.append(N)

    # options
    options = {}
    # nb_points is validated by cobyqa against the number of *non-fixed* variables, so it is drawn
    # within the documented range for that number (stated as an assumption of the checks)
    nfree = sum(1 for l, u in zip(lb, ub) if not (l == u))
    npt_max = (nfree + 1) * (nfree + 2) // 2
    npt = 2 * nfree + 1
    if pct(P["opt_prob"]):
        npt = draw(st.integers(nfree + 1, npt_max))
        options["nb_points"] = npt
    lo_fev, hi_fev = P["maxfev"]
    mf = draw(st.one_of(st.sampled_from([1, 2, max(1, npt - 1), npt, npt + 1, npt + 2, 3 * npt]),
                        st.integers(lo_fev, hi_fev)))
    options["maxfev"] = int(min(max(mf, lo_fev), hi_fev))
    if pct(P["opt_prob"]):
        options["maxiter"] = draw(st.sampled_from([1, 2, 5, 50, 1000]))
    if pct(P["opt_prob"]):
        ri = draw(st.sampled_from([0.125, 0.25, 0.5, 1.0, 2.0, 4.0]))
        options["radius_init"] = ri
        if pct(50):
            options["radius_final"] = draw(st.sampled_from([1e-6, 1e-3, 0.0625, ri, 0.0]))
            if options["radius_final"] > ri:
                options["radius_final"] = ri
    elif pct(P["opt_prob"] // 2):
        options["radius_final"] = draw(st.sampled_from([1e-6, 1e-3, 0.0625, 0.0]))
    if pct(P.get("radius_extreme", 0)):
        options["radius_init"] = draw(st.sampled_from([1e-200, 1e-12, 1e-5, 1e6]))
        options.pop("radius_final", None)
        if pct(50):
            options["radius_final"] = draw(st.sampled_from([0.0, options["radius_init"], options["radius_init"] / 8]))
    if pct(P["scale_prob"]):
        options["scale"] = True
    if pct(P["opt_prob"] // 2):
        options["feasibility_tol"] = draw(st.sampled_from([1e-8, 1e-3, 0.125, 0.0]))
    if pct(P["opt_prob"] // 2):
        options["filter_size"] = draw(st.sampled_from([1, 2, 5, 1000]))
    if pct(P["opt_prob"]):
        options["store_history"] = True
        if pct(50):
            options["history_size"] = draw(st.sampled_from([1, 2, npt, 1000]))
    if pct(P["debug_prob"]):
        options["debug"] = True
    if pct(P["disp_prob"]):
        options["disp"] = True
    if pct(P["target_prob"]):
        options["target"] = draw(dy(-8, 8))
    callback = {"form": "none"}
    if pct(P["callback_prob"]):
        callback = {"form": draw(st.sampled_from(CB_FORMS))}
        if pct(P["stop_prob"]):
            callback["stop_at"] = draw(st.integers(1, max(1, options["maxfev"])))
        if pct(25):
            callback["overwrite"] = True
        if pct(10):
            callback["junk"] = True
    faults = []
    if pct(P["faults"]):
        for _ in range(draw(st.integers(1, 3))):
            targets = ["obj"] * (kind != "none") + ["nl%d" % i for i in range(len(nl))]
            if not targets:
                break
            fn = draw(st.sampled_from(targets))
            comp = 0 if fn == "obj" else draw(st.integers(0, len(nl[int(fn[2:])]["comps"]) - 1))
            if pct(60):
                at = {"calls": sorted(set(draw(st.lists(st.integers(0, 30), min_size=1, max_size=4))))}
            else:
                at = {"half": {"a": [draw(st.integers(-2, 2)) for _ in range(n)], "b": draw(dy(-3, 3))}}
            val = draw(st.sampled_from(["nan", "inf", "-inf", 1e300, -1e300, 1e-300, 1e30]))
            faults.append({"fn": fn, "comp": comp, "at": at, "value": val})
    if nl and kind != "none" and pct(P["faults"] // 3):
        # complementary regions: the objective is undefined on one side of a hyperplane and a constraint
        # component on the other side, so that every evaluation carries exactly one undefined value
        a = [draw(st.integers(-2, 2)) for _ in range(n)]
        if not any(a):
            a[0] = 1
        bq = draw(dy(-3, 3))
        i_nl = draw(st.integers(0, len(nl) - 1))
        val = draw(st.sampled_from(["nan", "nan", "inf", "-inf"]))
        faults.append({"fn": "obj", "comp": 0, "at": {"half": {"a": a, "b": bq}}, "value": "nan"})
        faults.append({"fn": "nl%d" % i_nl, "comp": draw(st.integers(0, len(nl[i_nl]["comps"]) - 1)),
                       "at": {"half": {"a": [-v for v in a], "b": -bq}}, "value": val})
    spec = {
        "n": n, "x0": x0, "lb": lb, "ub": ub,
        "bounds_form": draw(wsample([("Bounds", 3), ("array", 2)])) if any(p != "free" for p in pats) or pct(50) else "none",
        "x0_form": draw(st.sampled_from(["list", "array"])),
        "obj": obj, "lin": lin, "nl": nl, "options": options, "callback": callback,
        "cons_form": draw(st.sampled_from(["list", "list", "tuple", "single"])),
    }
    if faults:
        spec["faults"] = faults
    return enc(spec)


# problems on which second-order-correction steps are frequent (about a quarter of the runs):
# oscillating / bilinear equality constraints, no linear constraints, a few iterations
SOC_PRONE = dict(
    ns=[(2, 5), (3, 3)], min_nl=1, max_nl=2, max_lin=0, maxfev=(15, 60),
    comp_kinds=[("sinf", 3), ("prod", 2), ("ball", 1)], limit_pats=[("eq", 3), ("two", 1), ("le", 1)],
    obj_kinds=[("quad", 2), ("lin", 1)], infeasible_prob=30,
    x0_pats=[("in", 2), ("lb", 1), ("ub", 1), ("below", 1), ("above", 1)],
    bound_pats=[("free", 2), ("two", 3), ("lower", 1), ("narrow", 1)],
)


def problems_mix(weighted_profiles):
    """Draw from several profiles with integer weights."""
    pool = []
    for prof, w in weighted_profiles:
        pool.extend([prof] * w)
    return st.integers(0, len(pool) - 1).flatmap(lambda i: problems(pool[i]))


@st.composite
def nan_split_problems(draw, profile=None):
    """Problems whose objective is undefined (NaN) on one side of a hyperplane through the neighbourhood
    of x0 and whose single, generously limited nonlinear constraint is undefined on the other side:
    every evaluation carries exactly one undefined value, and the points with an undefined objective
    are feasible."""
    P = dict(profile or {})
    P.update(max_lin=0, min_nl=1, max_nl=1, limit_pats=[("le", 1)], infeasible_prob=0, faults=0,
             nl_forms=[("NC", 1)], obj_kinds=[("quad", 3), ("lin", 1), ("rosen", 1)])
    sp = dec(draw(problems(P)))
    n = sp["n"]
    a = [draw(st.integers(-2, 2)) for _ in range(n)]
    if not any(a):
        a[0] = 1
    x0 = np.array([v if math.isfinite(v) else 0.0 for v in sp["x0"]], float)
    bq = float(np.array(a, float) @ x0) + draw(st.sampled_from([-0.5, -0.25, 0.25, 0.5]))
    sp["nl"][0]["ub"] = [u + 4.0 for u in sp["nl"][0]["ub"]]
    comp = draw(st.integers(0, len(sp["nl"][0]["comps"]) - 1))
    sp["faults"] = [
        {"fn": "obj", "comp": 0, "at": {"half": {"a": a, "b": bq}}, "value": "nan"},
        {"fn": "nl0", "comp": comp, "at": {"half": {"a": [-v for v in a], "b": -bq}},
         "value": draw(st.sampled_from(["nan", "nan", "inf"]))},
    ]
    return enc(sp)
