"""State machine over a real cobyqa.models.Models driven with scripted function values, shared by
C12 (interpolation after every update / shift / reset), C13 (least-Frobenius-norm models vs an
exact rational reference) and C14 (determinant ratios).  The history is plain data (`ops`)."""
import math
from fractions import Fraction as Fr

import numpy as np
from hypothesis import strategies as st
from hypothesis.stateful import RuleBasedStateMachine, initialize, invariant, precondition, rule
from scipy.optimize import Bounds, NonlinearConstraint

from .engine import Outcome, dec, enc
from .ref import exact as X

EPS = np.finfo(float).eps
KAPPA14 = 1e13  # determinant ratios are compared for conditioning below this
K = 1e4  # tolerance factor in units of eps*kappa*T*M (worst measured on the unchanged tree: ~2e2)


def dy8():
    return st.integers(-32, 32).map(lambda k: k / 8)


class Script:
    """Functions whose values are scripted per point (keyed by the bytes of x)."""

    def __init__(self):
        self.tab = {}

    def set(self, x, f, c):
        self.tab[np.asarray(x, float).tobytes()] = (float(f), [float(v) for v in c])

    def fun(self, x):
        return self.tab[np.asarray(x, float).tobytes()][0]

    def con(self, x):
        return np.array(self.tab[np.asarray(x, float).tobytes()][1])


class Driver:
    def __init__(self, init, focus):
        from cobyqa.models import Interpolation, Models
        from cobyqa.problem import (BoundConstraints, LinearConstraints, NonlinearConstraints,
                                    ObjectiveFunction, Problem)
        from cobyqa.settings import Options

        self.focus = focus  # set of property ids whose clauses are evaluated
        self.out = Outcome()
        init = dec(init)
        n, npt = init["n"], init["npt"]
        self.n, self.npt = n, npt
        self.sc = Script()
        obj = ObjectiveFunction(self.sc.fun, False, False)
        b = BoundConstraints(Bounds(np.full(n, -np.inf), np.full(n, np.inf)))
        # two inequality components: [twin of the objective, another function]
        nl = NonlinearConstraints([NonlinearConstraint(self.sc.con, -np.inf, 0.0)], False, False)
        x0 = np.array(init["x0"], float)
        self.pb = Problem(obj, x0, b, LinearConstraints([], n, False), nl, None, 1e-8, False, False, 1, 10 ** 9, False)
        self.opts = {Options.RHOBEG.value: float(init.get("radius", 1.0)), Options.RHOEND.value: 1e-6,
                     Options.NPT.value: npt, Options.MAX_EVAL.value: 10 ** 6, Options.FEASIBILITY_TOL.value: 1e-8,
                     Options.TARGET.value: -np.inf, Options.DEBUG.value: False}
        it0 = Interpolation(self.pb, dict(self.opts))
        self.vscale = float(init.get("vscale", 1.0))  # all function values are multiplied by it
        self.rad = float(init.get("radius", 1.0))  # size of the initial set; the rules' offsets are multiples of it
        vals = [v * self.vscale for v in init["vals"]]
        self.rec = []  # the values fed for each interpolation index
        for k in range(npt):
            f, c2 = vals[2 * k], vals[2 * k + 1]
            self.sc.set(it0.point(k), f, [f, c2])
            self.rec.append((float(f), float(f), float(c2)))
        self.m = Models(self.pb, self.opts, 0.0)
        m = self.m
        self.P = [X.frv(m.interpolation.point(k)) for k in range(npt)]
        base = X.frv(m.interpolation.x_base)
        self.ex = [X.ExactQuad(n) for _ in range(3)]
        self.exact_ok = True
        for e, v in zip(self.ex, [m.fun_val, m.cub_val[:, 0], m.cub_val[:, 1]]):
            e.b = base[:]
            if e.add_lfn(self.P, base, X.frv(v)) is None:
                self.exact_ok = False
        self.kappa_since_reset = 0.0
        self.t_since_reset = 0
        self.kappa_max = 0.0
        self.t_total = 0
        self.diam_lo = self.diam_hi = None  # extreme set diameters since the last reset
        self.counts = {"replace": 0, "shift": 0, "reset": 0, "ill": 0, "neardeg": 0, "det": 0, "skipped": 0, "alt": 0}
        self.last_update_hess = None
        self.check("init")

    # ------------------------------------------------------------------ helpers
    def kappa(self):
        from cobyqa.models import build_system

        a, rs, eig = build_system(self.m.interpolation)
        ev = np.abs(eig[0])
        mn = np.min(ev)
        return float(np.max(ev) / mn) if mn > 0 else math.inf

    def base_fr(self):
        return X.frv(self.m.interpolation.x_base)

    def stored_points(self):
        """The interpolation set as the solver holds it: x_base + xpt, summed exactly.  After base shifts it differs
        from the points that were supplied by the rounding of x - x_base (1e-17 absolute), which is 1e-9 of the
        size of a set of diameter 1e-7 sitting at distance 0.1 from the origin - enough to move a determinant ratio
        in its 9th digit.  The ratios are those of the set that is stored."""
        itp = self.m.interpolation
        bs = X.frv(itp.x_base)
        return [[bs[c] + Fr(float(itp.xpt[c, i])) for c in range(self.n)] for i in range(self.npt)]

    def exact_ratio(self, k, xn):
        bs = self.base_fr()
        Pn = [p[:] for p in self.P]
        Pn[k] = X.frv(xn)
        Ps = self.stored_points()
        Psn = [p[:] for p in Ps]
        Psn[k] = X.frv(xn)
        d_old = X.exact_det(X.kkt(X.rel(Ps, bs)))
        d_new = X.exact_det(X.kkt(X.rel(Psn, bs)))
        if d_old == 0:
            return None, Pn
        return d_new / d_old, Pn

    def formula_magnitude(self, k, xn):
        """First-order rounding sensitivity of sigma = alpha*beta + tau^2, beta = |d|^4/2 - w'W^{-1}w
        (Powell 2004, (2.12)) when the two solves z = W^{-1}e_k, u = W^{-1}w are carried out on the
        balanced matrix a = S W S with a relative error eps*kappa(a) *in norm*: the k-th components
        alpha = z_k and tau = u_k inherit an absolute error proportional to the norm of the whole
        balanced solution, which is huge next to alpha, tau themselves when the set is nearly
        degenerate.  Only magnitudes matter here, so floats are accurate enough."""
        from cobyqa.models import build_system

        m = self.m
        a, rs, _ = build_system(m.interpolation)
        npt, n = self.npt, self.n
        d = np.asarray(xn, float) - m.interpolation.x_base
        w = np.r_[0.5 * (m.interpolation.xpt.T @ d) ** 2, 1.0, d]
        ek = np.zeros(npt + n + 1)
        ek[k] = 1.0
        with np.errstate(all="ignore"):
            zs = np.linalg.lstsq(a, rs * ek, rcond=None)[0]
            us = np.linalg.lstsq(a, rs * w, rcond=None)[0]
        if not (np.all(np.isfinite(zs)) and np.all(np.isfinite(us))):
            return None
        alpha, tau = rs[k] * zs[k], rs[k] * us[k]
        wWw = float((rs * w) @ us)
        d4 = 0.5 * float(d @ d) ** 2
        nz, nu, nw = float(np.linalg.norm(zs)), float(np.linalg.norm(us)), float(np.linalg.norm(rs * w))
        norm_wise = (abs(rs[k]) * nz * (d4 + abs(wWw)) + abs(alpha) * nw * nu + 2.0 * abs(tau) * abs(rs[k]) * nu
                     + abs(alpha) * (d4 + abs(wWw)) + tau * tau)
        # component-wise variant: each solution component is a sum over the eigenpairs of
        # v_i[j] (v_i.r)/lambda_i; its rounding is proportional to the sum of the absolute terms
        try:
            lam, V = np.linalg.eigh(a)
            with np.errstate(all="ignore"):
                cz = np.abs(V * ((V.T @ (rs * ek)) / lam)[None, :]).sum(axis=1)
                cu = np.abs(V * ((V.T @ (rs * w)) / lam)[None, :]).sum(axis=1)
            comp_wise = (abs(rs[k]) * cz[k] * (d4 + abs(wWw)) + abs(alpha) * float(np.abs(rs * w) @ cu)
                         + 2.0 * abs(tau) * abs(rs[k]) * cu[k] + abs(alpha) * (d4 + abs(wWw)) + tau * tau)
            if not math.isfinite(comp_wise):
                comp_wise = norm_wise
        except np.linalg.LinAlgError:
            comp_wise = norm_wise
        self._m_cw = float(comp_wise)
        return float(norm_wise)

    # ------------------------------------------------------------------ operations
    def replace(self, k, j, offs, e, f, c2):
        m = self.m
        f, c2 = f * self.vscale, c2 * self.vscale
        k = k % self.npt
        j = j % self.npt
        offs = np.array(offs[: self.n], float)
        if e < 0:
            # nudge: the replaced point itself moves by 2^e (the set, hence its conditioning, barely changes,
            # but the value recorded for it does)
            xn = m.interpolation.point(k) + offs * 2.0 ** e * self.rad
            self.out.label("nudge")
        elif e > 0:
            if j == k:
                j = (j + 1) % self.npt
            xn = m.interpolation.point(j) + offs * 2.0 ** (-e) * self.rad
        else:
            xn = m.interpolation.point(j) + 2.0 * offs * self.rad
        ratio, Pn = self.exact_ratio(k, xn)
        if ratio is None or ratio == 0:
            self.counts["skipped"] += 1
            return
        ratio_f = float(ratio)
        if not math.isfinite(ratio_f) or abs(ratio_f) < 1e-300:
            self.counts["skipped"] += 1
            return
        kap = self.kappa()
        # ---- C14: determinant ratios, asked for one index and for all indices
        # "candidate points within a few radii": at most 4 diameters of the current set away from it
        pts_now = np.array([m.interpolation.point(i) for i in range(self.npt)])
        far = float(np.max(np.linalg.norm(pts_now - np.asarray(xn, float), axis=1))) > 4.0 * self.diameter()
        if far:
            self.out.label("candidate-beyond-4-diameters")
        if "C14" in self.focus and kap < KAPPA14 and 1e-6 < abs(ratio_f) < 1e6 and not far:
            with np.errstate(all="ignore"):
                sig_k = float(m.determinants(np.array(xn, float), k))
                sig_all = m.determinants(np.array(xn, float))
            M = self.formula_magnitude(k, xn)
            M = max(1.0, abs(ratio_f)) if M is None else max(M, abs(ratio_f), 1.0)
            Mcw = max(getattr(self, "_m_cw", M), abs(ratio_f), 1.0)
            # The only bound with an error analysis behind it is the norm-wise one, eps*kappa*M.  Two tighter
            # empirical bounds (eps*sqrt(kappa)*M and a component-wise eps*kappa*Mcw) were used for a while; a
            # later sweep produced an anisotropic set (two points 2.8e-9 apart in a set of diameter 2, kappa 1.2e9)
            # on which the balanced solves are accurate to eps*kappa *in norm* as they should be, and the small
            # components of the solution, hence the small ratios, are not: that is rounding scaled by
            # conditioning, and the empirical bounds were withdrawn (DESIGN.md 8.4).  The ratios are still reported.
            tol = K * EPS * kap * M
            self.counts["det"] += 1
            for name, got in (("one", sig_k), ("all", float(sig_all[k]))):
                err = abs(got - ratio_f)
                self.out.ratio("C14.det_%s/(eps*kappa*M)" % name, err / (EPS * kap * M))
                self.out.ratio("C14.det_%s/(eps*sqrt(kappa)*M)" % name, err / (EPS * math.sqrt(kap) * M))
                self.out.ratio("C14.det_%s/(eps*kappa*Mcw)" % name, err / (EPS * kap * Mcw))
                if not (err <= tol):
                    self.out.fail("C14.ratio." + name, "determinants(x, %s) = %r but the exact ratio det(W_new)/det(W_old) "
                                  "is %r (kappa %.3g, n=%d, npt=%d, index %d)"
                                  % ("k" if name == "one" else "all", got, ratio_f, kap, self.n, self.npt, k),
                                  kappa=kap, ratio=ratio_f)
            # all indices at once: every entry against its own exact ratio (cheap sets only)
            if self.npt <= 6:
                for kk in range(self.npt):
                    if kk == k:
                        continue
                    r2, _ = self.exact_ratio(kk, xn)
                    if r2 is None:
                        continue
                    r2 = float(r2)
                    if 1e-6 < abs(r2) < 1e6:
                        err = abs(float(sig_all[kk]) - r2)
                        M2 = self.formula_magnitude(kk, xn)
                        M2 = max(1.0, abs(r2)) if M2 is None else max(M2, abs(r2), 1.0)
                        self.out.ratio("C14.det_all/(eps*kappa*M)", err / (EPS * kap * M2))
                        self.out.ratio("C14.det_all/(eps*sqrt(kappa)*M)", err / (EPS * math.sqrt(kap) * M2))
                        if not (err <= K * EPS * kap * M2):
                            self.out.fail("C14.ratio.all", "determinants(x)[%d] = %r but the exact ratio is %r "
                                          "(kappa %.3g)" % (kk, float(sig_all[kk]), r2, kap), kappa=kap, ratio=r2)
        key = np.asarray(xn, float).tobytes()
        if key in self.sc.tab:
            # a function has one value per point (and the constraint wrapper's one-entry cache relies on it)
            f, (_, c2) = self.sc.tab[key]
        self.sc.set(xn, f, [f, c2])
        fv, cu, ce = self.pb(np.array(xn, float))
        self.rec[k] = (float(f), float(f), float(c2))
        bs = self.base_fr()
        old_h = [[float(v) for v in row] for row in self.ex[0].H]
        self.P = Pn
        if self.exact_ok:
            for e_, v in zip(self.ex, [fv, cu[0], cu[1]]):
                resid = [Fr(0)] * self.npt
                resid[k] = Fr(float(v)) - e_.val(self.P[k])
                h = e_.add_lfn(self.P, bs, resid)
                if h is None:
                    self.exact_ok = False
                elif e_ is self.ex[0]:
                    self.last_update_hess = h
        try:
            ill = m.update_interpolation(k, np.array(xn, float), fv, cu, ce)
        except np.linalg.LinAlgError:
            self.counts["skipped"] += 1
            self.exact_ok = False
            return
        self.P = self.stored_points()  # the set as stored (x_new - x_base is rounded)
        self.counts["replace"] += 1
        self.counts["ill"] += bool(ill)
        if e > 0:
            self.counts["neardeg"] += 1
        self.check("replace")

    def shift(self, j, offs, to_point):
        m = self.m
        # the new expansion point is an interpolation point (what the solver does) or a point
        # within one eighth of the set's diameter per coordinate of one
        if to_point:
            nb = m.interpolation.point(j % self.npt)
        else:
            nb = m.interpolation.point(j % self.npt) + np.array(offs[: self.n], float) * (self.diameter() / 32.0)
        before = self.probe_values() if "C13" in self.focus else None
        m.shift_x_base(np.array(nb, float), self.opts)
        self.P = self.stored_points()  # the set as stored (xpt - shift is rounded)
        self.counts["shift"] += 1
        if before is not None and max(self.kappa_max, self.kappa()) < 1e8:
            after = self.probe_values()
            kap = max(self.kappa_max, self.kappa())
            for (name, a, mag), (_, b_, _) in zip(before, after):
                tol = K * EPS * kap * max(self.t_total, 1) * mag
                err = float(np.max(np.abs(np.asarray(a) - np.asarray(b_))))
                if not (err <= tol):
                    self.out.fail("C13.shift", "shifting the expansion point changed the model's %s by %.3g "
                                  "(tolerance %.3g)" % (name, err, tol))
        self.check("shift")

    def reset(self):
        m = self.m
        try:
            m.reset_models()
        except np.linalg.LinAlgError:
            self.counts["skipped"] += 1
            return
        self.counts["reset"] += 1
        self.kappa_since_reset = 0.0
        self.kappa_max = 0.0
        self.t_since_reset = 0
        self.t_total = 0
        self.diam_lo = self.diam_hi = None
        if self.exact_ok:
            for e_, v in zip(self.ex, [m.fun_val, m.cub_val[:, 0], m.cub_val[:, 1]]):
                e_.clear()
                if e_.add_lfn(self.P, e_.b, X.frv(v)) is None:
                    self.exact_ok = False
        self.last_update_hess = None
        self.check("reset")

    def alt(self):
        """The *alternative* objective model (`fun_alt_grad`): the freshly built least-Frobenius-norm
        interpolant of the values recorded on the current set.  It is a pure query - the solver asks for it
        right after an update, the machine asks at any moment (in particular between a shift and a reset, where a
        cache kept across the shift would show)."""
        m = self.m
        P = np.array([m.interpolation.point(k) for k in range(self.npt)])
        xp = P.mean(axis=0)
        try:
            g = [m.fun_alt_grad(xp)]
        except np.linalg.LinAlgError:
            self.counts["skipped"] += 1
            return
        self.counts["alt"] += 1
        kap = self.kappa()
        if "C13" not in self.focus or not self.exact_ok or not kap < 1e8:
            return
        xf = X.frv(xp)
        scale = max(self.vscale, float(np.max(np.abs(m.fun_val))), float(np.max(np.abs(m.cub_val))))
        for name, gv, vals in (("objective", g[0], m.fun_val),):
            ref = X.ExactQuad(self.n)
            ref.b = self.base_fr()
            if ref.add_lfn(self.P, ref.b, X.frv(vals)) is None:
                return
            eg = np.array([float(v) for v in ref.grad(xf)])
            M = max(scale, ref.mag(xf))
            tol = K * EPS * kap * M
            gerr = max(abs(float((gv - eg) @ (P[i] - xp))) for i in range(self.npt))
            self.out.ratio("C13.alt/(eps*kappa*M)", gerr / (EPS * kap * M))
            if not (gerr <= tol):
                self.out.fail("C13.alt", "the alternative %s model (a freshly built least-norm interpolant of the "
                              "recorded values) has directional derivatives towards the interpolation points that "
                              "differ from the exact interpolant's by %.3g (tolerance %.3g, kappa %.3g, n=%d npt=%d)"
                              % (name, gerr, tol, kap, self.n, self.npt))

    def probe_values(self):
        """Model views at deterministic probe points inside the set (centroid and midpoints)."""
        m = self.m
        pts = np.array([m.interpolation.point(k) for k in range(self.npt)])
        probes = [pts.mean(axis=0), 0.5 * (pts[0] + pts[-1])]
        outv = []
        scale = max(self.vscale, float(np.max(np.abs(m.fun_val))))
        for p in probes:
            mag = self.ex[0].mag(X.frv(p)) if self.exact_ok else scale
            outv.append(("value", [m.fun(p)], max(mag, scale)))
            outv.append(("directional derivatives", (pts - p) @ m.fun_grad(p), max(mag, scale)))
        return outv

    def diameter(self):
        pts = np.array([self.m.interpolation.point(k) for k in range(self.npt)])
        return float(np.max(np.linalg.norm(pts[:, None, :] - pts[None, :, :], axis=2)))

    # ------------------------------------------------------------------ oracle
    def check(self, after):
        m = self.m
        npt, n = self.npt, self.n
        kap = self.kappa()
        # Rounding noise left in the implicit Hessian while the set had diameter d_then is
        # invisible inside that set but is magnified by (d_now/d_then)^2 once the set has grown
        # (and conversely): the conditioning that scales the error bound is therefore the
        # condition number of the balanced matrix times the squared ratio of the extreme set
        # diameters of the history since the last reset.
        dm = self.diameter()
        self.diam_lo = dm if self.diam_lo is None else min(self.diam_lo, dm)
        self.diam_hi = dm if self.diam_hi is None else max(self.diam_hi, dm)
        spread = (self.diam_hi / self.diam_lo) ** 2 if self.diam_lo > 0 else math.inf
        kap_eff = kap * spread
        self.kappa_since_reset = max(self.kappa_since_reset, kap_eff)
        self.kappa_max = max(self.kappa_max, kap_eff)
        if spread > 16.0:
            self.out.label("set-diameter-changed-by-more-than-4x")
        self.t_since_reset += 1
        self.t_total += 1
        ksr, tsr = self.kappa_since_reset, self.t_since_reset
        pts = [m.interpolation.point(k) for k in range(npt)]
        scale = max(self.vscale, float(np.max(np.abs(m.fun_val))), float(np.max(np.abs(m.cub_val))))
        if self.exact_ok:
            mscale = max(scale, max(e.mag(X.frv(p)) for e in self.ex for p in pts))
        else:
            mscale = scale
        r_obj = max(abs(m.fun(pts[k]) - m.fun_val[k]) for k in range(npt))
        r_tw = max(abs(m.cub(pts[k])[0] - m.cub_val[k, 0]) for k in range(npt))
        r_ot = max(abs(m.cub(pts[k])[1] - m.cub_val[k, 1]) for k in range(npt))
        if "C12" in self.focus:
            if math.isfinite(ksr) and ksr < 1e12:
                tol = K * EPS * ksr * tsr * mscale
                worst = max(r_obj, r_tw, r_ot)
                self.out.ratio("C12.interp/(eps*kappa*T*M)", worst / (EPS * ksr * tsr * mscale))
                if not (worst <= tol):
                    which = ["objective", "constraint 0", "constraint 1"][int(np.argmax([r_obj, r_tw, r_ot]))]
                    self.out.fail("C12.interp", "after %s: the %s model misses a recorded value by %.3g (tolerance "
                                  "%.3g = 1e4*eps*kappa*T*M, kappa %.3g, T %d, n=%d npt=%d)"
                                  % (after, which, worst, tol, ksr, tsr, n, npt), kappa=ksr)
            # twin clause: same data, same algorithm => same residual up to rounding
            tw_tol = max(1e3 * r_obj, 100 * EPS * min(kap, 1e8) * mscale)
            if r_tw > tw_tol:
                self.out.fail("C12.twin", "after %s: a constraint model fed exactly the objective's values misses its "
                              "recorded values by %.3g while the objective model's error is %.3g (kappa %.3g)"
                              % (after, r_tw, r_obj, kap), kappa=kap)
            self.out.ratio("C12.twin/tol", r_tw / tw_tol if tw_tol > 0 else 0.0)
            # recorded values are the scripted ones
            for k in range(npt):
                f, c0, c1 = self.rec[k]
                if not (m.fun_val[k] == f and m.cub_val[k, 0] == c0 and m.cub_val[k, 1] == c1):
                    self.out.fail("C12.recorded", "the value recorded for interpolation point %d is not the value "
                                  "returned at that point" % k)
                    break
        if "C13" in self.focus and self.exact_ok and self.kappa_max < 1e8:
            T = self.t_total
            diam = max(self.diameter(), 1e-300)
            P = np.array(pts)
            probes = [P.mean(axis=0), 0.5 * (P[0] + P[-1]) + 0.25 * (P[min(1, npt - 1)] - P[0]),
                      P[npt // 2] + 0.5 * (P[0] - P[-1])]
            for xp in probes:
                xf = X.frv(xp)
                for name, e, mv in (("objective", self.ex[0], m.fun(xp)), ("constraint", self.ex[2], m.cub(xp)[1])):
                    ev = float(e.val(xf))
                    M = max(mscale, e.mag(xf))
                    tol = K * EPS * self.kappa_max * T * M
                    self.out.ratio("C13.value/(eps*kappa*T*M)", abs(mv - ev) / (EPS * self.kappa_max * T * M))
                    if not (abs(mv - ev) <= tol):
                        self.out.fail("C13.value", "after %s: the %s model takes the value %r at a probe point, the "
                                      "exact least-norm recursion gives %r (tolerance %.3g, kappa %.3g, n=%d npt=%d)"
                                      % (after, name, float(mv), ev, tol, self.kappa_max, n, npt))
                # gradient: compared along the directions from the probe to the interpolation points (the
                # model is only determined along the set; it may be arbitrarily steep across a thin set)
                eg = np.array([float(v) for v in self.ex[0].grad(xf)])
                dg = m.fun_grad(xp) - eg
                M = max(mscale, self.ex[0].mag(xf))
                tol = K * EPS * self.kappa_max * T * M
                gerr = max(abs(float(dg @ (P[i] - xp))) for i in range(npt))
                self.out.ratio("C13.grad/(eps*kappa*T*M)", gerr / (EPS * self.kappa_max * T * M))
                if not (gerr <= tol):
                    self.out.fail("C13.grad", "after %s: the model's directional derivatives towards the interpolation "
                                  "points differ from the exact reference by %.3g (tolerance %.3g)" % (after, gerr, tol))
            # Hessian vs exact along pairs of set directions, and the views agree with each other
            He = np.array([[float(v) for v in row] for row in self.ex[0].H])
            H = m.fun_hess()
            M2 = mscale / diam ** 2
            tolH = K * EPS * self.kappa_max * T * mscale
            D = P - P[0]
            herr = float(np.max(np.abs(D @ (H - He) @ D.T)))
            self.out.ratio("C13.hess/(eps*kappa*T*M)", herr / (EPS * self.kappa_max * T * mscale))
            if not (herr <= tolH):
                self.out.fail("C13.hess", "after %s: the model's curvature along pairs of set directions differs from "
                              "the exact reference by %.3g (tolerance %.3g)" % (after, herr, tolH))
            hmag = float(np.max(np.abs(H))) + float(np.max(np.abs(m._fun._e_hess))) + float(
                np.sum(np.abs(m._fun._i_hess)) * np.max(np.abs(m.interpolation.xpt)) ** 2)
            for v in (P[0] - P[-1], np.eye(n)[0] * diam, np.ones(n) * diam / 2):
                hp = m.fun_hess_prod(v)
                cv = m.fun_curv(v)
                tolv = 1e3 * EPS * n * npt * max(hmag, 1e-300) * float(np.linalg.norm(v))
                if not (np.max(np.abs(hp - H @ v)) <= tolv):
                    self.out.fail("C13.views", "hess_prod(v) and hess() @ v differ by %.3g (tolerance %.3g)"
                                  % (float(np.max(np.abs(hp - H @ v))), tolv))
                if not (abs(cv - v @ H @ v) <= tolv * float(np.linalg.norm(v))):
                    self.out.fail("C13.views", "curv(v) and v' hess() v differ by %.3g (tolerance %.3g)"
                                  % (abs(cv - v @ H @ v), tolv * float(np.linalg.norm(v))))
                # exact for a quadratic: finite differences of the gradient / value
                xc = P.mean(axis=0)
                fd = m.fun_grad(xc + v) - m.fun_grad(xc)
                # (the probe xc + v is formed in absolute coordinates: its rounding, eps*|xc|, is multiplied by
                # the size of the Hessian, which is large for a tiny set far from the origin)
                tolg = 1e3 * EPS * n * npt * (hmag * (np.linalg.norm(v) + np.linalg.norm(xc - m.interpolation.x_base) + diam
                                                       + np.linalg.norm(xc) + np.linalg.norm(m.interpolation.x_base))
                                               + float(np.max(np.abs(m._fun._grad))))
                if not (np.max(np.abs(fd - hp)) <= tolg):
                    self.out.fail("C13.views", "grad(x+v)-grad(x) and hess_prod(v) differ by %.3g (tolerance %.3g)"
                                  % (float(np.max(np.abs(fd - hp))), tolg))
            # variational clause: the (update of the) Hessian is orthogonal to every quadratic vanishing on the set
            if after in ("init", "reset", "replace") and npt < (n + 1) * (n + 2) // 2:
                basis = X.vanishing_quadratics(self.P, self.base_fr())
                if after == "replace":
                    Hupd = H - self._prev_hess if getattr(self, "_prev_hess", None) is not None else None
                else:
                    Hupd = H
                if Hupd is not None:
                    for Hp in basis[:4]:
                        Hpf = np.array([[float(v) for v in row] for row in Hp])
                        ip = float(np.sum(Hupd * Hpf))
                        nrm = float(np.linalg.norm(Hpf)) * max(float(np.linalg.norm(Hupd)), M2)
                        tolv = K * EPS * self.kappa_max * T * max(nrm, 1e-300)
                        if not (abs(ip) <= tolv):
                            self.out.fail("C13.leastnorm", "after %s: <Hess(%s), Hess(p)>_F = %.3g for a quadratic p "
                                          "vanishing on the interpolation set (tolerance %.3g): not the least-"
                                          "Frobenius-norm %s" % (after, "update" if after == "replace" else "model",
                                                                 ip, tolv, "update" if after == "replace" else "interpolant"))
                            break
            self._prev_hess = H.copy()
        elif "C13" in self.focus:
            self._prev_hess = None

    def finish(self):
        c = self.counts
        self.out.label("n=%d" % self.n)
        if self.npt < (self.n + 1) * (self.n + 2) // 2:
            self.out.label("underdetermined")
        if c["ill"]:
            self.out.label("ill-conditioned-update")
        if c["neardeg"]:
            self.out.label("near-degenerate-replacement")
        if c["reset"]:
            self.out.label("reset")
        self.out.sample = {"n": self.n, "npt": self.npt, "counts": dict(c), "kappa_max": enc(self.kappa_max)}


def make_machine(focus, nmax, neardeg=(0, 0, 0, 0, 20, 30, 40, -24)):
    class ModelsMachine(RuleBasedStateMachine):
        def __init__(self):
            super().__init__()
            self.ops = []
            self.init_spec = None
            self.drv = None
            self.out = Outcome()

        @initialize(n=st.integers(1, nmax), frac=st.integers(0, 100), x0=st.lists(dy8(), min_size=5, max_size=5),
                    vals=st.lists(dy8(), min_size=42, max_size=42),
                    vscale=st.sampled_from([1.0, 1.0, 1.0, 2.0 ** -60, 2.0 ** 40]),
                    radius=st.sampled_from([1.0, 1.0, 1.0, 2.0 ** -16, 2.0 ** -24, 2.0 ** 12]))
        def setup(self, n, frac, x0, vals, vscale, radius):
            lo, hi = n + 1, (n + 1) * (n + 2) // 2
            npt = lo + (hi - lo) * frac // 100
            self.init_spec = enc({"n": n, "npt": npt, "x0": x0[:n], "vals": vals, "vscale": vscale, "radius": radius})
            self.drv = Driver(self.init_spec, focus)
            self.out.fails.extend(self.drv.out.fails)
            self.out.ratios.update(self.drv.out.ratios)
            self.drv.out = self.out

        @precondition(lambda self: self.drv is not None)
        @rule(k=st.integers(0, 20), j=st.integers(0, 20), offs=st.lists(dy8(), min_size=5, max_size=5),
              e=st.sampled_from(list(neardeg)), f=dy8(), c2=dy8())
        def replace(self, k, j, offs, e, f, c2):
            self.drv.out = self.out
            self.ops.append(enc(["replace", k, j, offs, e, f, c2]))
            self.drv.replace(k, j, offs, e, f, c2)

        @precondition(lambda self: self.drv is not None)
        @rule(j=st.integers(0, 20), offs=st.lists(dy8(), min_size=5, max_size=5), to_point=st.booleans())
        def shift(self, j, offs, to_point):
            self.drv.out = self.out
            self.ops.append(enc(["shift", j, offs, to_point]))
            self.drv.shift(j, offs, to_point)

        @precondition(lambda self: self.drv is not None)
        @rule()
        def reset(self):
            self.drv.out = self.out
            self.ops.append(["reset"])
            self.drv.reset()

        @precondition(lambda self: self.drv is not None)
        @rule()
        def alt(self):
            self.drv.out = self.out
            self.ops.append(["alt"])
            self.drv.alt()

        @invariant()
        def report(self):
            if self.drv is not None:
                type(self)._vf_hook(self, False)

        def teardown(self):
            if self.drv is not None:
                self.drv.out = self.out
                self.drv.finish()
                nontrivial_rule(self.drv, focus)
                type(self)._vf_hook(self, True)

    return ModelsMachine


def nontrivial_rule(drv, focus):
    c = drv.counts
    if "C12" in focus:
        drv.out.nontrivial = c["replace"] >= 3 and c["shift"] >= 1 and drv.kappa_max < 1e12
    elif "C13" in focus:
        drv.out.nontrivial = (drv.npt < (drv.n + 1) * (drv.n + 2) // 2 and c["replace"] >= 1 and drv.exact_ok
                              and drv.kappa_max < 1e8)
    else:
        drv.out.nontrivial = c["det"] >= 1 and c["replace"] >= 1


def replay(focus, init, ops):
    drv = Driver(init, focus)
    for op in dec(ops):
        if op[0] == "replace":
            drv.replace(*op[1:])
        elif op[0] == "shift":
            drv.shift(*op[1:])
        elif op[0] == "alt":
            drv.alt()
        else:
            drv.reset()
    drv.finish()
    nontrivial_rule(drv, focus)
    return drv.out
