"""Run one generated `minimize` call under user-space spies and harness-side taps.

Taps are monkeypatches installed by the harness on the imported cobyqa classes for the duration
of one case; they only read.  They are used to observe what a property explicitly talks about
(the argument of `Problem.__call__` before projection, the fitted radii, the final penalty) and
to label evaluations with the kind of step that produced them.
"""
import contextlib
import io
import traceback
import warnings

import numpy as np

import cobyqa
import cobyqa.framework as cframework
import cobyqa.main as cmain
import cobyqa.models as cmodels
import cobyqa.problem as cproblem

from . import spec as S

BARRIER = 2.0 ** 100


class Trace:
    """Everything observed about one run."""

    def __init__(self):
        self.result = None
        self.exc = None  # (type name, message, innermost cobyqa frame "file:line:func", traceback text)
        self.evals = []  # taps: dicts per Problem.__call__: x_arg, xl, xu, kind, ret, x_full, penalty
        self.options = None  # completed options dict (after TrustRegion init / fitted radii)
        self.constants = None
        self.final_penalty = None
        self.pb = None
        self.framework = None
        self.iters = []  # per get_trust_region_step: radius, resolution, penalty, best_index
        self.stdout = ""
        self.warnings = []


def cobyqa_frame(tb):
    """Innermost frame inside the cobyqa package of a traceback."""
    best = None
    for fs in traceback.extract_tb(tb):
        if "/cobyqa/" in fs.filename.replace("\\", "/"):
            best = "%s:%d:%s" % (fs.filename.rsplit("/cobyqa/", 1)[1], fs.lineno, fs.name)
    return best


class Taps:
    def __init__(self, trace, log=None):
        self.t = trace
        self.log = log
        self.saved = []
        self.kind = "init"

    def patch(self, obj, name, wrapper_factory):
        orig = getattr(obj, name)
        self.saved.append((obj, name, orig))
        setattr(obj, name, wrapper_factory(orig))

    def __enter__(self):
        t = self.t
        taps = self

        def w_call(orig):
            def __call__(pb, x, penalty=0.0):
                xa = np.array(x, dtype=float, copy=True)
                rec = {"x_arg": xa, "kind": taps.kind, "penalty": penalty,
                       "xl": pb.bounds.xl, "xu": pb.bounds.xu}
                t.pb = pb
                t.evals.append(rec)
                # the point the trial point was built from (x_best + step, or the starting point during the
                # initial sampling): its magnitude bounds the rounding of that sum
                try:
                    fw = t.framework
                    rec["x_from"] = (np.array(fw.x_best, dtype=float, copy=True)
                                     if fw is not None and hasattr(fw, "_models") else np.array(pb.x0, dtype=float))
                except Exception:
                    rec["x_from"] = None
                try:
                    rec["x_full"] = np.array(pb.build_x(xa), dtype=float, copy=True)
                except Exception:
                    pass
                if taps.log is not None:
                    rec["seq0"] = len(taps.log.events)
                try:
                    ret = orig(pb, x, penalty)
                except BaseException as exc:
                    rec["exc"] = type(exc).__name__
                    raise
                finally:
                    if taps.log is not None:
                        rec["seq1"] = len(taps.log.events)
                rec["ret"] = (float(ret[0]), np.array(ret[1], copy=True), np.array(ret[2], copy=True))
                return ret
            return __call__

        self.patch(cproblem.Problem, "__call__", w_call)

        def w_build(orig):
            def _build_result(pb, penalty, success, status, n_iter, options):
                t.pb = pb
                t.final_penalty = penalty
                t.options = dict(options)
                t.status_enum = status
                return orig(pb, penalty, success, status, n_iter, options)
            return _build_result

        self.patch(cmain, "_build_result", w_build)

        def w_tr_init(orig):
            def __init__(fw, pb, options, constants):
                t.framework = fw
                t.pb = pb
                t.constants = constants
                t.options_obj = options
                taps.kind = "init"
                try:
                    orig(fw, pb, options, constants)
                finally:
                    t.options = dict(options)
            return __init__

        self.patch(cframework.TrustRegion, "__init__", w_tr_init)

        def kind_setter(kind, record=False):
            def fac(orig):
                def method(fw, *a, **k):
                    if record:
                        t.iters.append({
                            "radius": fw.radius, "resolution": fw.resolution,
                            "penalty": fw.penalty, "best_index": fw.best_index,
                            "n_evals": len(t.evals),
                        })
                    taps.kind = kind
                    return orig(fw, *a, **k)
                return method
            return fac

        self.patch(cframework.TrustRegion, "get_trust_region_step", kind_setter("tr", True))
        self.patch(cframework.TrustRegion, "get_second_order_correction_step", kind_setter("soc"))
        self.patch(cframework.TrustRegion, "get_geometry_step", kind_setter("geo"))
        return self

    def __exit__(self, *exc):
        for obj, name, orig in reversed(self.saved):
            setattr(obj, name, orig)
        return False


def make_kwargs(b):
    kw = {}
    if b.bounds is not None:
        kw["bounds"] = b.bounds
    if b.constraints:
        kw["constraints"] = b.constraints
    elif b.spec.get("cons_form") == "tuple":
        kw["constraints"] = ()
    if b.callback is not None:
        kw["callback"] = b.callback
    if b.options or b.spec.get("pass_options", True):
        kw["options"] = b.options
    if getattr(b, "args", ()):
        kw["args"] = b.args
    kw.update(b.constants)
    b.kw = kw
    return kw


def run(spec, taps=True, lookup=None, extra_taps=None, hook=None, prebuilt=None):
    """Build the call from the spec and run it.  Returns (built, trace)."""
    b = prebuilt if prebuilt is not None else S.build(spec, lookup=lookup, hook=hook)
    t = Trace()
    kw = make_kwargs(b)
    out = io.StringIO()
    with contextlib.ExitStack() as stack:
        if taps:
            tp = stack.enter_context(Taps(t, b.log))
            if extra_taps is not None:
                stack.enter_context(extra_taps(t, tp))
        stack.enter_context(contextlib.redirect_stdout(out))
        wl = stack.enter_context(warnings.catch_warnings(record=True))
        warnings.simplefilter("always")
        try:
            with np.errstate(all="ignore"):
                t.result = cobyqa.minimize(b.fun, b.x0, **kw)
        except BaseException as exc:
            if isinstance(exc, (KeyboardInterrupt, SystemExit)):
                raise
            t.exc = (type(exc).__name__, str(exc)[:300], cobyqa_frame(exc.__traceback__),
                     traceback.format_exc()[-1500:])
        t.warnings = [(w.category.__name__, str(w.message)) for w in wl]
    t.stdout = out.getvalue()
    if taps:
        group_evaluations(b, t)
    return b, t


def group_evaluations(b, t):
    """Attach to every tapped evaluation the user-function events it owns.

    rec["x"]   user-space point (from the objective spy, else from the tap's build_x image)
    rec["fun"] raw objective value logged (None for fun=None)
    rec["nl"]  per nonlinear object: raw vector returned for this evaluation - the call made
               inside the evaluation at this point or, when that call was skipped by the
               one-entry cache, the most recent earlier call at a bitwise-equal point
    """
    ev = b.log.events
    nnl = len(b.nl)
    last_nl = [None] * nnl  # most recent (x, val) per function
    pos = 0
    for rec in t.evals:
        s0, s1 = rec.get("seq0", 0), rec.get("seq1", 0)
        # keep the cache model in step with calls made outside evaluations
        for e in ev[pos:s0]:
            if e[1] == "nl":
                last_nl[e[2]] = (e[3], e[4])
        own = ev[s0:s1]
        pos = s1
        objs = [e for e in own if e[1] == "obj"]
        rec["n_obj"] = len(objs)
        rec["x"] = objs[0][3] if objs else rec.get("x_full")
        rec["fun"] = objs[0][4] if objs else None
        rec["cb"] = [e for e in own if e[1] == "cb"]
        nl = [None] * nnl
        ncalls = [0] * nnl
        for e in own:
            if e[1] == "nl":
                ncalls[e[2]] += 1
                if rec["x"] is not None and same(e[3], rec["x"]) and nl[e[2]] is None:
                    nl[e[2]] = e[4]
                last_nl[e[2]] = (e[3], e[4])
        for i in range(nnl):
            if nl[i] is None and last_nl[i] is not None and rec["x"] is not None and same(last_nl[i][0], rec["x"]):
                nl[i] = last_nl[i][1]
        rec["nl"] = nl
        rec["nl_calls"] = ncalls


# ---------------------------------------------------------------------------------------------
# helpers over logs


def same(a, b):
    """Bitwise equality of floats / arrays with NaN == NaN."""
    a = np.asarray(a, float)
    b = np.asarray(b, float)
    return a.shape == b.shape and bool(np.all((a == b) | (np.isnan(a) & np.isnan(b))))


def eval_points(b, t):
    """The sequence of evaluation points in user space with the logged raw values.

    One entry per counted evaluation: (x, fun_raw or None, [nl value arrays or None]).
    The objective log defines the sequence when there is an objective; otherwise the first
    nonlinear constraint's log merged with the tap (fun=None) does.
    """
    lg = b.log
    nnl = len(b.nl)
    pts = []
    if b.fun is not None:
        for e in lg.calls("obj"):
            pts.append({"x": e[3], "fun": e[4], "nl": [None] * nnl, "seq": e[0]})
    else:
        for rec in t.evals:
            if "x_full" in rec:
                pts.append({"x": rec["x_full"], "fun": None, "nl": [None] * nnl, "seq": None})
    return pts


def attach_nl(b, pts):
    """Attach to each evaluation point the value each nonlinear function returned at it (the
    most recent call at a bitwise-equal point)."""
    lg = b.log
    for i in range(len(b.nl)):
        calls = lg.calls("nl", i)
        table = {}
        for e in calls:
            table[e[3].tobytes()] = e[4]
        for p in pts:
            p["nl"][i] = table.get(np.asarray(p["x"], float).tobytes())
    return pts


def in_bounds(b, x):
    x = np.asarray(x, float)
    lb = np.where(np.isnan(b.lb), -np.inf, b.lb)
    ub = np.where(np.isnan(b.ub), np.inf, b.ub)
    return x.shape == lb.shape and bool(np.all(x >= lb) and np.all(x <= ub))


def consistent_bounds(b):
    lb = np.where(np.isnan(b.lb), -np.inf, b.lb)
    ub = np.where(np.isnan(b.ub), np.inf, b.ub)
    return bool(np.all(lb <= ub) and np.all(lb < np.inf) and np.all(ub > -np.inf))


def summarize(spec, t):
    """Readable sample for evidence files."""
    s = {"spec": spec}
    if t.result is not None:
        r = t.result
        s["result"] = {"status": int(r.status), "nfev": int(r.nfev), "nit": int(r.nit),
                       "fun": S.enc(float(r.fun)), "maxcv": S.enc(float(r.maxcv))}
    elif t.exc:
        s["exception"] = t.exc[:3]
    return s
