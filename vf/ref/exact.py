"""Exact (fractions.Fraction) reference for the least-Frobenius-norm quadratic models.

Everything here is derived from the definition of the method, not from cobyqa's code:
the KKT matrix W of `min ||Hess q||_F  s.t. q(y_k) = v_k`, with q(x) = c + g.(x-b) +
1/2 sum_k lam_k (y_k.(x-b))^2, is

    W = [ 1/2 (Y'Y)^2   e   Y' ]
        [ e'            0   0  ]
        [ Y             0   0  ]

and the symmetric Broyden update adds the least-norm interpolant of the residual.
"""
from fractions import Fraction as Fr


def frv(v):
    return [Fr(float(a)) for a in v]


def exact_solve(M, rhs):
    n = len(M)
    A = [row[:] + [r] for row, r in zip(M, rhs)]
    for c in range(n):
        p = next((r for r in range(c, n) if A[r][c] != 0), None)
        if p is None:
            return None
        A[c], A[p] = A[p], A[c]
        inv = 1 / A[c][c]
        for r in range(n):
            if r != c and A[r][c] != 0:
                f = A[r][c] * inv
                A[r] = [a - f * b for a, b in zip(A[r], A[c])]
    return [A[i][n] / A[i][i] for i in range(n)]


def exact_det(M):
    n = len(M)
    A = [row[:] for row in M]
    d = Fr(1)
    for c in range(n):
        p = next((r for r in range(c, n) if A[r][c] != 0), None)
        if p is None:
            return Fr(0)
        if p != c:
            A[c], A[p] = A[p], A[c]
            d = -d
        d *= A[c][c]
        inv = 1 / A[c][c]
        for r in range(c + 1, n):
            if A[r][c] != 0:
                f = A[r][c] * inv
                A[r] = [a - f * b for a, b in zip(A[r], A[c])]
    return d


def kkt(Y):
    """Y: list of npt points (lists of Fractions) relative to the base point."""
    npt = len(Y)
    n = len(Y[0])
    N = npt + n + 1
    W = [[Fr(0)] * N for _ in range(N)]
    for i in range(npt):
        for j in range(npt):
            d = sum(a * b for a, b in zip(Y[i], Y[j]))
            W[i][j] = d * d / 2
        W[i][npt] = Fr(1)
        W[npt][i] = Fr(1)
        for t in range(n):
            W[i][npt + 1 + t] = Y[i][t]
            W[npt + 1 + t][i] = Y[i][t]
    return W


def rel(P, base):
    return [[a - b for a, b in zip(p, base)] for p in P]


class ExactQuad:
    """c + g.(x-b) + 1/2 (x-b)'H(x-b) with an absolute expansion point b, all exact."""

    def __init__(self, n):
        self.n = n
        self.c = Fr(0)
        self.g = [Fr(0)] * n
        self.H = [[Fr(0)] * n for _ in range(n)]
        self.b = [Fr(0)] * n

    def clear(self):
        n = self.n
        self.c = Fr(0)
        self.g = [Fr(0)] * n
        self.H = [[Fr(0)] * n for _ in range(n)]

    def val(self, x):
        d = [a - b for a, b in zip(x, self.b)]
        n = self.n
        return (self.c + sum(g * di for g, di in zip(self.g, d))
                + sum(d[i] * self.H[i][j] * d[j] for i in range(n) for j in range(n)) / 2)

    def grad(self, x):
        d = [a - b for a, b in zip(x, self.b)]
        n = self.n
        return [self.g[i] + sum(self.H[i][j] * d[j] for j in range(n)) for i in range(n)]

    def mag(self, x):
        """Sum of the absolute values of the terms of val(x), as a float."""
        d = [abs(float(a - b)) for a, b in zip(x, self.b)]
        n = self.n
        return (abs(float(self.c)) + sum(abs(float(self.g[i])) * d[i] for i in range(n))
                + 0.5 * sum(abs(float(self.H[i][j])) * d[i] * d[j] for i in range(n) for j in range(n)))

    def add_lfn(self, P, base, resid):
        """Add the least-Frobenius-norm interpolant of `resid` on the absolute points P (the KKT
        system is written relative to `base`).  Returns the Hessian of the added quadratic."""
        n = self.n
        Y = rel(P, base)
        npt = len(P)
        sol = exact_solve(kkt(Y), list(resid) + [Fr(0)] * (n + 1))
        if sol is None:
            return None
        lam, c, g = sol[:npt], sol[npt], sol[npt + 1:]
        H = [[sum(lam[k] * Y[k][i] * Y[k][j] for k in range(npt)) for j in range(n)] for i in range(n)]
        s = [a - b for a, b in zip(self.b, base)]
        Hs = [sum(H[i][j] * s[j] for j in range(n)) for i in range(n)]
        c0 = c + sum(g[i] * s[i] for i in range(n)) + sum(s[i] * Hs[i] for i in range(n)) / 2
        g0 = [g[i] + Hs[i] for i in range(n)]
        self.c += c0
        self.g = [a + b for a, b in zip(self.g, g0)]
        self.H = [[self.H[i][j] + H[i][j] for j in range(n)] for i in range(n)]
        return H


def vanishing_quadratics(P, base):
    """A basis (exact) of the quadratics c + g.d + 1/2 d'Hd (d = x - base) that vanish on all the
    points P: null space of the Vandermonde matrix.  Returned as a list of Hessians (the other
    coefficients are not needed by the variational clause)."""
    n = len(base)
    Y = rel(P, base)
    idx = [(i, j) for i in range(n) for j in range(i, n)]
    cols = 1 + n + len(idx)
    rows = []
    for y in Y:
        row = [Fr(1)] + list(y)
        for i, j in idx:
            row.append(y[i] * y[j] / 2 if i == j else y[i] * y[j])
        rows.append(row)
    # null space by Gauss-Jordan
    A = [r[:] for r in rows]
    piv = []
    r = 0
    for c in range(cols):
        p = next((i for i in range(r, len(A)) if A[i][c] != 0), None)
        if p is None:
            continue
        A[r], A[p] = A[p], A[r]
        inv = 1 / A[r][c]
        A[r] = [a * inv for a in A[r]]
        for i in range(len(A)):
            if i != r and A[i][c] != 0:
                f = A[i][c]
                A[i] = [a - f * b for a, b in zip(A[i], A[r])]
        piv.append(c)
        r += 1
        if r == len(A):
            break
    free = [c for c in range(cols) if c not in piv]
    basis = []
    for fc in free:
        v = [Fr(0)] * cols
        v[fc] = Fr(1)
        for ri, pc in enumerate(piv):
            v[pc] = -A[ri][fc]
        H = [[Fr(0)] * n for _ in range(n)]
        for t, (i, j) in enumerate(idx):
            H[i][j] = v[1 + n + t]
            H[j][i] = v[1 + n + t]
        basis.append(H)
    return basis
