"""./check <ID> <quick|thorough>   |   ./check <ID> --replay <file>

Exit codes: 0 property held on everything explored (KNOWN-FINDING lines allowed);
            1 at least one unlisted violation (one `VIOLATION property=<id> replay=<path>` line per
              root-cause bucket);
            2 harness error (never reported as a violation).
"""
import importlib
import re
import json
import multiprocessing as mp
import os
import sys
import time
import traceback
import warnings
from collections import Counter

from . import engine
from .engine import HERE, Collector, Outcome, enc, load_known


def run_spec(mod, spec):
    """Run one stored case without Hypothesis."""
    if isinstance(spec, dict) and "machine" in spec and hasattr(mod, "replay_ops"):
        return mod.replay_ops(spec["machine"], spec["init"], spec["ops"])
    return mod.run_case(spec)


def load_specs(path):
    data = json.load(open(os.path.join(HERE, path) if not os.path.isabs(path) else path))
    if isinstance(data, dict) and "specs" in data:
        return data["specs"]
    if isinstance(data, dict) and "spec" in data:
        return [data["spec"]]
    if isinstance(data, list):
        return data
    return [data]


OUT = os.environ.get("VERIF_OUT") or HERE  # the sensitivity audit redirects evidence/replay output


def write_replay(prop_id, v):
    os.makedirs(os.path.join(OUT, "replay"), exist_ok=True)
    name = "%s-%s.json" % (prop_id, re.sub(r"[^A-Za-z0-9]+", "_", v["bucket"]).strip("_"))
    path = os.path.join(OUT, "replay", name)
    with open(path, "w") as fh:
        json.dump(
            {"property": prop_id, "bucket": v["bucket"], "msg": v["msg"], "spec": v["spec"],
             "data": v.get("data")},
            fh,
            indent=1,
            default=str,
        )
    return path


def main(argv):
    if len(argv) < 2:
        print(__doc__)
        return 2
    prop_id = argv[0].upper()
    mod_name = "vf.props." + prop_id.lower()
    warnings.simplefilter("ignore")
    import numpy as np

    np.seterr(all="ignore")
    try:
        mod = importlib.import_module(mod_name)
    except Exception:
        traceback.print_exc()
        print("HARNESS-ERROR: cannot import %s" % mod_name)
        return 2
    findings, fixed = load_known(prop_id)

    if argv[1] == "--replay":
        col = Collector(mod, findings)
        rc = 0
        for spec in load_specs(argv[2]):
            out = run_spec(mod, spec)
            news = col.observe(spec, out)
            for f in out.fails:
                print("  clause %s: %s" % (f.clause, f.msg))
            if news:
                rc = 1
                print("VIOLATION property=%s replay=%s" % (prop_id, os.path.abspath(argv[2])))
        for kid, cnt in col.known_hits.items():
            print("KNOWN-FINDING: property=%s %s" % (prop_id, kid))
        if rc == 0:
            print("replay: no unlisted violation")
        return rc

    tier = os.environ.get("VERIF_TIER") or argv[1]
    if argv[1] in ("quick", "thorough"):
        tier = argv[1]
    if tier not in ("quick", "thorough"):
        print("unknown tier %r" % tier)
        return 2
    seed_value = int(os.environ.get("VERIF_SEED", "1") or 1)
    nshards = int(os.environ.get("VERIF_WORKERS", "16"))
    t0 = time.time()
    # replay files are rewritten by every run
    rdir = os.path.join(OUT, "replay")
    if os.path.isdir(rdir):
        for fn in os.listdir(rdir):
            if fn.startswith(prop_id + "-"):
                os.remove(os.path.join(rdir, fn))

    # ---------------------------------------------------------------- replay tier
    rep = Collector(mod, findings)
    known_lines = []
    violations = []
    harness_errors = []
    try:
        for f in findings:
            hit = False
            if f.get("reproducers"):
                for spec in load_specs(f["reproducers"]):
                    out = run_spec(mod, spec)
                    before = rep.known_hits[f["id"]]
                    for nf in rep.observe(spec, out):
                        violations.append(
                            {"bucket": nf.bucket, "msg": nf.msg, "spec": spec, "data": enc(nf.data)}
                        )
                    hit = hit or rep.known_hits[f["id"]] > before
            f["_replayed_hit"] = hit
        for fx in fixed:
            if fx.get("regression"):
                for spec in load_specs(fx["regression"]):
                    out = run_spec(mod, spec)
                    for nf in rep.observe(spec, out):
                        violations.append(
                            {"bucket": nf.bucket, "msg": "regression of fixed defect (%s): %s"
                             % (fx.get("text", ""), nf.msg), "spec": spec, "data": enc(nf.data)}
                        )
        # saved inputs that once made the check alarm wrongly (known/corpus-<ID>-*.json): they must stay quiet
        import glob as _glob
        corpus = list(mod.corpus()) if hasattr(mod, "corpus") else []
        for path in sorted(_glob.glob(os.path.join(HERE, "known", "corpus-%s-*.json" % prop_id))):
            corpus.extend(load_specs(path))
        if corpus:
            for spec in corpus:
                out = run_spec(mod, spec)
                for nf in rep.observe(spec, out):
                    violations.append(
                        {"bucket": nf.bucket, "msg": nf.msg, "spec": spec, "data": enc(nf.data)}
                    )
    except Exception:
        harness_errors.append(traceback.format_exc())

    # ---------------------------------------------------------------- generated tier
    results = []
    if not harness_errors:
        ctx = mp.get_context("spawn")
        jobs = [(mod_name, tier, seed_value, w, nshards) for w in range(nshards)]
        with ctx.Pool(min(nshards, os.cpu_count() or 1)) as pool:
            results = pool.map(engine.shard_main, jobs, chunksize=1)

    evaluations = rep.evaluations
    nontrivial = set(rep.nontrivial)
    labels = Counter(rep.labels)
    undecidable = rep.undecidable
    ratios = dict(rep.ratios)
    samples = list(rep.samples)
    known_hits = Counter(rep.known_hits)
    known_examples = dict(rep.known_examples)
    for r in results:
        evaluations += r["evaluations"]
        nontrivial.update(r["nontrivial"])
        labels.update(r["labels"])
        undecidable += r["undecidable"]
        for k, v in r["ratios"].items():
            ratios[k] = max(ratios.get(k, 0.0), v)
        if len(samples) < 5:
            samples.extend(r["samples"][: 5 - len(samples)])
        known_hits.update(r["known_hits"])
        for k, v in r["known_examples"].items():
            known_examples.setdefault(k, v)
        violations.extend(r["violations"])
        if r["error"]:
            harness_errors.append(r["error"]["harness_error"])
            if r["error"].get("spec") is not None:
                os.makedirs(os.path.join(OUT, "replay"), exist_ok=True)
                with open(os.path.join(OUT, "replay", "%s-harness-error.json" % prop_id), "w") as fh:
                    json.dump({"spec": r["error"]["spec"]}, fh, indent=1, default=str)

    # optional coverage-guided campaign of the property (atheris), in sub-processes
    fuzz_stats = None
    if not harness_errors and hasattr(mod, "fuzz_campaign"):
        try:
            fuzz_stats, fviol = mod.fuzz_campaign(tier, seed_value)
            violations.extend(fviol)
            evaluations += int(fuzz_stats.get("executions", 0))
        except Exception:
            fuzz_stats = {"error": traceback.format_exc()[-600:]}

    # one report per root-cause bucket: keep the smallest spec
    by_bucket = {}
    for v in violations:
        size = len(json.dumps(v["spec"], default=str))
        if v["bucket"] not in by_bucket or size < by_bucket[v["bucket"]][0]:
            by_bucket[v["bucket"]] = (size, v)
    wall = time.time() - t0

    for f in findings:
        if known_hits.get(f["id"], 0) > 0:
            print(
                "KNOWN-FINDING: property=%s %s (%s; %d hits this run)"
                % (prop_id, f.get("text", ""), f["id"], known_hits[f["id"]])
            )
    rc = 0
    for b, (_, v) in sorted(by_bucket.items()):
        path = write_replay(prop_id, v)
        print("  violation bucket %s: %s" % (b, v["msg"]))
        print("VIOLATION property=%s replay=%s" % (prop_id, path))
        rc = 1

    ev = {
        "property_id": prop_id,
        "tier": tier,
        "seed": seed_value,
        "level": "exploration",
        "coverage": {
            "evaluations": int(evaluations),
            "distinct_nontrivial": int(len(nontrivial)),
            "rule": mod.RULE,
            "samples": samples[:5] if samples else [],
            "classes": dict(sorted(labels.items())),
            "undecidable_skipped": int(undecidable),
            "known_finding_hits": dict(known_hits),
            "worst_tolerance_ratio": ratios,
            "exhaustive": bool(getattr(mod, "EXHAUSTIVE", False)),
            "shards": nshards,
            "violation_buckets": sorted(by_bucket),
        },
        "assumptions": list(getattr(mod, "ASSUMPTIONS", [])),
        "wall_s": round(wall, 2),
        "violations": len(by_bucket),
    }
    if fuzz_stats is not None:
        ev["coverage"]["fuzz"] = fuzz_stats
    if harness_errors:
        ev["coverage"]["harness_errors"] = harness_errors[:3]
    os.makedirs(os.path.join(OUT, "evidence"), exist_ok=True)
    with open(os.path.join(OUT, "evidence", "%s.json" % prop_id), "w") as fh:
        json.dump(enc(ev), fh, indent=1, default=str)

    print(
        "%s %s seed=%d: %d cases, %d distinct non-trivial, %d undecidable, %d known-finding hits, "
        "%d violation bucket(s), %.1fs"
        % (prop_id, tier, seed_value, evaluations, len(nontrivial), undecidable,
           sum(known_hits.values()), len(by_bucket), wall)
    )
    top = ", ".join("%s=%d" % kv for kv in sorted(labels.items(), key=lambda kv: -kv[1])[:40])
    print("classes: " + top)
    if ratios:
        print("worst tolerance ratios: " + ", ".join("%s=%.3g" % kv for kv in sorted(ratios.items())))
    if harness_errors:
        print("HARNESS-ERROR:\n" + harness_errors[0])
        return 2
    return rc


if __name__ == "__main__":
    sys.exit(main(sys.argv[1:]))
