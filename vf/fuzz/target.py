"""atheris (libFuzzer) driver: coverage-guided search over the same spec grammar and oracles.

    python -m vf.fuzz.target <ID> <out_dir> [libFuzzer args...]

The bytes are decoded by Hypothesis' own `fuzz_one_input` into the property's strategy, so that the
semantic oracle of the property (run_case) runs inside the target; cobyqa is imported under
atheris' instrumentation, which gives libFuzzer branch coverage of the solver. A failure that is not a
listed known finding is written to <out_dir>/violations/ and stops the process (libFuzzer "crash").
Statistics are written to <out_dir>/stats.json at exit of the fuzz loop (atexit does not run under
libFuzzer, so they are rewritten every 200 executions).
"""
import importlib
import json
import os
import sys
import warnings


def main(argv):
    prop_id, out_dir = argv[1].upper(), argv[2]
    fargs = [argv[0]] + argv[3:]
    import atheris

    with atheris.instrument_imports(include=["cobyqa"]):
        import cobyqa  # noqa: F401
        import cobyqa.main, cobyqa.problem, cobyqa.models, cobyqa.framework  # noqa: F401,E401
        import cobyqa.subsolvers.optim, cobyqa.subsolvers.geometry  # noqa: F401,E401
    import numpy as np
    from hypothesis import HealthCheck, given, settings

    from ..engine import Collector, load_known, spec_hash

    warnings.simplefilter("ignore")
    np.seterr(all="ignore")
    mod = importlib.import_module("vf.props." + prop_id.lower())
    findings, _ = load_known(prop_id)
    col = Collector(mod, findings)
    os.makedirs(os.path.join(out_dir, "violations"), exist_ok=True)
    state = {"n": 0}

    def dump():
        res = col.result()
        res["executions"] = state["n"]
        with open(os.path.join(out_dir, "stats.json"), "w") as fh:
            json.dump(res, fh, default=str)

    @settings(database=None, deadline=None, suppress_health_check=list(HealthCheck), max_examples=10 ** 9)
    @given(spec=mod.strategy("thorough"))
    def test(spec):
        out = mod.run_case(spec)
        news = col.observe(spec, out)
        state["n"] += 1
        if state["n"] % 200 == 0:
            dump()
        if news:
            f = news[0]
            path = os.path.join(out_dir, "violations", "%s-%s.json" % (prop_id, spec_hash(spec)))
            with open(path, "w") as fh:
                json.dump({"property": prop_id, "bucket": f.bucket, "msg": f.msg, "spec": spec}, fh, indent=1,
                          default=str)
            dump()
            raise AssertionError(f.msg)

    def one_input(data):
        test.hypothesis.fuzz_one_input(data)

    atheris.Setup(fargs, one_input)
    try:
        atheris.Fuzz()
    finally:
        dump()


if __name__ == "__main__":
    main(sys.argv)
