"""atheris target for C19: coverage-guided fuzzing of the option / constant validators.

    python -m vf.fuzz.c19_validator <out_dir> [libFuzzer args]

Bytes are decoded (FuzzedDataProvider) into a subset of the options validated by
cobyqa.main._set_default_options and of the 20 constants, each with a value that is either a lattice
point of its documented domain or an arbitrary float; the oracle is the harness' own table of
domains and relations (vf/props/c19.py): ValueError iff some supplied value is outside its domain or
a supplied coupled pair violates its relation; otherwise the completed dicts must satisfy every
relation and keep the supplied values. A mismatch is written to <out_dir>/violations/ and crashes
the target. Statistics go to <out_dir>/stats.json.
"""
import json
import math
import os
import sys
import warnings


def main(argv):
    out_dir = argv[1]
    fargs = [argv[0]] + argv[2:]
    import atheris

    with atheris.instrument_imports(include=["cobyqa.main"]):
        import cobyqa.main as cmain
    from ..props import c19

    os.makedirs(os.path.join(out_dir, "violations"), exist_ok=True)
    warnings.simplefilter("ignore")
    N = c19.N
    opt_names = ["radius_init", "radius_final", "nb_points", "maxfev", "maxiter"]
    const_names = c19.CONST_NAMES
    stats = {"executions": 0, "valid": 0, "invalid": 0, "boundary": 0, "distinct": 0, "samples": []}
    seen = set()

    def dump():
        stats["distinct"] = len(seen)
        with open(os.path.join(out_dir, "stats.json"), "w") as fh:
            json.dump(stats, fh, default=str)

    def fail(kind, settings, msg):
        path = os.path.join(out_dir, "violations", "C19-%s-%d.json" % (kind, stats["executions"]))
        with open(path, "w") as fh:
            json.dump({"property": "C19", "bucket": "C19.fuzz." + kind, "msg": msg,
                       "spec": {"settings": c19.enc(settings)}}, fh, indent=1, default=str)
        dump()
        raise AssertionError(msg)

    def one_input(data):
        fdp = atheris.FuzzedDataProvider(data)
        settings = {}
        for _ in range(fdp.ConsumeIntInRange(0, 8)):
            nm = (opt_names + const_names)[fdp.ConsumeIntInRange(0, len(opt_names) + len(const_names) - 1)]
            lat = c19.TABLE[nm]["lattice"]
            if fdp.ConsumeBool():
                v = lat[fdp.ConsumeIntInRange(0, len(lat) - 1)]
            elif isinstance(lat[0], bool):
                v = fdp.ConsumeBool()
            elif isinstance(lat[0], int):
                v = fdp.ConsumeIntInRange(-3, 12)
            else:
                v = fdp.ConsumeRegularFloat()
                if not math.isfinite(v):
                    v = 1.0
            settings[nm] = v
        stats["executions"] += 1
        key = json.dumps(settings, sort_keys=True, default=str)
        if key not in seen and len(seen) < 200000:
            seen.add(key)
        in_domain = all(c19.TABLE[k]["ok"](v) for k, v in settings.items())
        rel_ok = all(rel(settings[a], settings[b]) for a, b, rel, _ in c19.RELATIONS if a in settings and b in settings)
        valid = in_domain and rel_ok
        if any(c19._near_boundary(k, v) for k, v in settings.items()):
            stats["boundary"] += 1
        opts = {k: v for k, v in settings.items() if k in opt_names}
        consts = {k: v for k, v in settings.items() if k in const_names}
        try:
            copts = dict(opts)
            cmain._set_default_options(copts, N)
            cconsts = cmain._set_default_constants(**consts)
            exc = None
        except ValueError as e:
            exc = e
        except Exception as e:  # noqa
            fail("exctype", settings, "settings %r raised %s: %s" % (settings, type(e).__name__, e))
        if valid:
            stats["valid"] += 1
            if exc is not None:
                fail("reject", settings, "valid settings %r rejected: %s" % (settings, exc))
            full = dict(copts)
            full.update(cconsts)
            for a, b, rel, txt in c19.RELATIONS:
                if not rel(full[a], full[b]):
                    fail("relation", settings, "completed settings violate %s: %r, %r (supplied %r)"
                         % (txt, full[a], full[b], settings))
            for k, v in settings.items():
                if not (full[k] == v or (isinstance(v, float) and math.isclose(full[k], v))):
                    fail("overwrite", settings, "supplied %s=%r became %r" % (k, v, full[k]))
        else:
            stats["invalid"] += 1
            if exc is None:
                fail("accept", settings, "settings outside their documented domain accepted: %r" % (settings,))
        if len(stats["samples"]) < 5 and len(settings) >= 2:
            stats["samples"].append(c19.enc(settings))
        if stats["executions"] % 20000 == 0:
            dump()

    atheris.Setup(fargs, one_input)
    try:
        atheris.Fuzz()
    finally:
        dump()


if __name__ == "__main__":
    main(sys.argv)
