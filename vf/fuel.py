"""Deterministic fuel: run a callable while counting the *line events* executed inside cobyqa/
(sys.settrace; frames outside cobyqa are not traced) and abort it when a budget is exceeded.  Used
to turn a wall-clock watchdog hit (inconclusive by itself) into a reproducible verdict: a case that
consumes the whole budget without the progress event resetting it is reported as not terminating."""
import sys


class FuelExhausted(BaseException):
    pass


class Fuel:
    def __init__(self, limit):
        self.limit = limit
        self.used = 0
        self.total = 0

    def reset(self):
        """Progress event (e.g. a new evaluation of the user functions)."""
        self.used = 0

    def _local(self, frame, event, arg):
        if event == "line":
            self.used += 1
            self.total += 1
            if self.used > self.limit:
                raise FuelExhausted()
        return self._local

    def tracer(self, frame, event, arg):
        if "/cobyqa/" in frame.f_code.co_filename:
            self.used += 1
            return self._local
        return None

    def run(self, fn):
        old = sys.gettrace()
        sys.settrace(self.tracer)
        try:
            return fn()
        finally:
            sys.settrace(old)
