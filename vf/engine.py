"""Sharded Hypothesis driver shared by all property checks.

A property module (vf/props/cXX.py) provides

    ID, RULE, ASSUMPTIONS
    budget(tier)                -> number of generated cases (all shards together)
    strategy(tier)              -> Hypothesis strategy producing a JSON-serialisable *spec*
    run_case(spec)              -> Outcome   (pure function of the spec and of the tree under test)
    SIGNATURES                  -> {name: predicate(spec, fail) -> bool}   (known-finding recognisers)
    corpus()                    -> hand-picked specs replayed first (optional)
    enumerate_cases(tier)       -> iterable of specs enumerated exhaustively (optional)
    machines(tier)              -> [(name, RuleBasedStateMachine subclass, share)]   (optional, stateful)
    replay_ops(name, ops)       -> Outcome  (replays a recorded machine history without Hypothesis)

Every random choice is made by Hypothesis under `seed(VERIF_SEED*1000 + shard)`; a run is a pure
function of (tree, seed, tier).  Failures are bucketed by oracle clause; buckets that match a
listed known finding are counted and the search continues; each other bucket is shrunk on its own
(collect-then-shrink) and reported once.
"""
import hashlib
import importlib
import json
import math
import os
import sys
import time
import traceback
from collections import Counter

import hypothesis
from hypothesis import HealthCheck, Phase, given, settings

HERE = os.path.dirname(os.path.dirname(os.path.abspath(__file__)))

MAX_BUCKETS = 4  # root-cause buckets shrunk per shard
SHRINK_CALLS = {"quick": 400, "thorough": 3000}
# wall-clock cap on shrinking one bucket (affects only how small the replay file is, never pass/fail)
SHRINK_SECONDS = {"quick": 45.0, "thorough": 600.0}
if os.environ.get("VERIF_AUDIT_FAST"):
    # sensitivity audit only (tools/audit.py): the verdict DETECTED / MISSED needs neither a small
    # replay file nor the buckets behind the first one
    MAX_BUCKETS = 0
    SHRINK_CALLS = {"quick": 0, "thorough": 0}


# --------------------------------------------------------------------------------------------
# plain-data helpers


def enc(x):
    """Encode a float so that the spec stays strict JSON (no NaN/Infinity literals)."""
    if isinstance(x, (list, tuple)):
        return [enc(v) for v in x]
    if isinstance(x, dict):
        return {k: enc(v) for k, v in x.items()}
    if isinstance(x, bool) or x is None or isinstance(x, (int, str)):
        return x
    x = float(x)
    if math.isnan(x):
        return "nan"
    if math.isinf(x):
        return "inf" if x > 0 else "-inf"
    return x


def dec(x):
    if isinstance(x, list):
        return [dec(v) for v in x]
    if isinstance(x, dict):
        return {k: dec(v) for k, v in x.items()}
    if isinstance(x, str) and x in ("nan", "inf", "-inf"):
        return float(x)
    return x


def spec_hash(spec):
    return hashlib.sha1(
        json.dumps(spec, sort_keys=True, default=str).encode()
    ).hexdigest()[:16]


class Fail:
    """One oracle failure of one case."""

    def __init__(self, clause, msg, data=None):
        self.clause = clause  # e.g. "C02.c"; the bucket
        self.msg = msg
        self.data = data or {}

    @property
    def bucket(self):
        return self.clause

    def to_json(self):
        return {"clause": self.clause, "msg": self.msg, "data": enc(self.data)}


class Outcome:
    def __init__(self):
        self.fails = []
        self.nontrivial = False
        self.labels = []
        self.undecidable = 0
        self.ratios = {}  # name -> worst observed tolerance ratio
        self.sample = None  # optional readable summary of the case

    def fail(self, clause, msg, **data):
        self.fails.append(Fail(clause, msg, data))

    def label(self, *names):
        self.labels.extend(names)

    def ratio(self, name, value):
        if value is not None and value == value:
            self.ratios[name] = max(self.ratios.get(name, 0.0), float(value))


class PropertyViolation(Exception):
    pass


class HarnessError(Exception):
    pass


# --------------------------------------------------------------------------------------------
# known findings


def load_known(prop_id):
    """Parse /verif/known_findings.txt (never written at run time)."""
    path = os.path.join(HERE, "known_findings.txt")
    findings, fixed = [], []
    if not os.path.exists(path):
        return findings, fixed
    for line in open(path):
        line = line.strip()
        if not line or line.startswith("#"):
            continue
        kind, _, rest = line.partition(":")
        toks = rest.split()
        kv = {}
        words = []
        for t in toks:
            if "=" in t and t.split("=", 1)[0] in (
                "property",
                "id",
                "signature",
                "reproducers",
                "regression",
            ):
                k, v = t.split("=", 1)
                kv[k] = v
            else:
                words.append(t)
        if kv.get("property") != prop_id:
            continue
        kv["text"] = " ".join(words)
        if kind == "finding":
            findings.append(kv)
        elif kind == "fixed":
            fixed.append(kv)
    return findings, fixed


class Collector:
    """Statistics and failure bookkeeping of one shard (or of the replay tier)."""

    def __init__(self, mod, findings):
        self.mod = mod
        self.findings = findings
        self.evaluations = 0
        self.nontrivial = set()
        self.labels = Counter()
        self.undecidable = 0
        self.ratios = {}
        self.samples = []
        self.known_hits = Counter()
        self.known_examples = {}
        self.violations = []  # dicts: bucket, msg, spec, data

    def match_known(self, spec, fail):
        sigs = getattr(self.mod, "SIGNATURES", {})
        for f in self.findings:
            pred = sigs.get(f.get("signature"))
            if pred is not None and pred(spec, fail):
                return f["id"]
        return None

    def observe(self, spec, out, ignored=(), count=True):
        """Record a case; return the failures that are neither known nor already reported."""
        if count:
            self.evaluations += 1
        h = None
        if out.nontrivial and count:
            h = spec_hash(spec)
            if h not in self.nontrivial:
                self.nontrivial.add(h)
                if len(self.samples) < 3:
                    self.samples.append(out.sample if out.sample is not None else spec)
        for lab in out.labels:
            self.labels[lab] += 1
        self.undecidable += out.undecidable
        for k, v in out.ratios.items():
            self.ratios[k] = max(self.ratios.get(k, 0.0), v)
        news = []
        for f in out.fails:
            kid = self.match_known(spec, f)
            if kid is not None:
                self.known_hits[kid] += 1
                self.known_examples.setdefault(kid, f.msg)
                continue
            if f.bucket in ignored:
                continue
            news.append(f)
        return news

    def result(self):
        return {
            "evaluations": self.evaluations,
            "nontrivial": sorted(self.nontrivial),
            "labels": dict(self.labels),
            "undecidable": self.undecidable,
            "ratios": self.ratios,
            "samples": self.samples,
            "known_hits": dict(self.known_hits),
            "known_examples": self.known_examples,
            "violations": self.violations,
        }


def hyp_settings(n_examples, tier, shrink=True, steps=None):
    kw = dict(
        max_examples=max(1, int(n_examples)),
        database=None,
        deadline=None,
        derandomize=False,
        report_multiple_bugs=False,
        suppress_health_check=list(HealthCheck),
        phases=[Phase.generate, Phase.shrink] if shrink else [Phase.generate],
        print_blob=False,
        verbosity=hypothesis.Verbosity.quiet,
    )
    if steps is not None:
        kw["stateful_step_count"] = steps
    return settings(**kw)


def _drive(run_hypothesis, col, tier, to_spec=lambda s: s):
    """Collect-then-shrink loop around one Hypothesis test.

    `run_hypothesis(body, round)` must run a Hypothesis test whose body calls `body(spec, out)`
    after executing a case (given style) - the state-machine style goes through the same hook.
    """
    ignored = set()
    budget = SHRINK_CALLS[tier]
    for rnd in range(MAX_BUCKETS + 1):
        st = {"target": None, "hit": None, "after": 0, "harness": None, "failing": {}}

        def body(spec, outcome_fn, count=True, st=st):
            if st["harness"] is not None or st["target"] is not None:
                st["after"] += 1
                if st.get("t0") is None:
                    st["t0"] = time.time()
                if st["after"] > budget or time.time() - st["t0"] > SHRINK_SECONDS[tier]:
                    # shrinking budget exhausted: only the best known failing case still fails,
                    # so the shrinker stops and the final replay of the minimal case is stable
                    if spec_hash(spec) in st["failing"]:
                        raise PropertyViolation(st["failing"][spec_hash(spec)])
                    if st["harness"] is not None and spec_hash(spec) == st["harness"][1]:
                        raise HarnessError(st["harness"][0])
                    return
            try:
                out = outcome_fn()
            except (PropertyViolation, HarnessError):
                raise
            except BaseException as exc:  # a bug of the harness, never a violation
                if isinstance(exc, (KeyboardInterrupt, SystemExit)):
                    raise
                tb = traceback.format_exc()
                if st["harness"] is None:
                    st["harness"] = (tb, spec_hash(spec), spec)
                else:
                    st["harness"] = (tb, spec_hash(spec), spec)
                raise HarnessError(tb)
            news = col.observe(spec, out, ignored, count)
            if st["target"] is None and news:
                st["target"] = news[0].bucket
            hits = [f for f in news if f.bucket == st["target"]]
            if hits:
                h = spec_hash(spec)
                st["failing"][h] = hits[0].msg
                size = len(json.dumps(spec, default=str))
                if st["hit"] is None or size <= st["hit"][3]:
                    st["hit"] = (spec, hits[0], h, size)
                if hits[0].data.get("noshrink"):
                    # failures that are not a pure function of the case (free-running threads): keep
                    # the case as found, do not spend the budget shrinking it
                    st["after"] = budget
                raise PropertyViolation(hits[0].msg)

        try:
            run_hypothesis(body, rnd)
        except PropertyViolation:
            spec, f = st["hit"][0], st["hit"][1]
            col.violations.append(
                {"bucket": f.bucket, "msg": f.msg, "spec": spec, "data": enc(f.data)}
            )
            ignored.add(f.bucket)
            if f.data.get("fatal"):
                # non-termination: every further occurrence would cost a watchdog period; stop this shard
                break
            continue
        except HarnessError as exc:
            return {"harness_error": str(exc), "spec": st["harness"][2] if st["harness"] else None}
        except hypothesis.errors.HypothesisException as exc:
            if st["hit"] is not None:
                # e.g. Flaky: keep the failing case, flagged
                spec, f = st["hit"][0], st["hit"][1]
                col.violations.append(
                    {
                        "bucket": f.bucket,
                        "msg": f.msg + " [hypothesis: %s]" % type(exc).__name__,
                        "spec": spec,
                        "data": enc(f.data),
                    }
                )
                ignored.add(f.bucket)
                continue
            return {"harness_error": "hypothesis: " + traceback.format_exc(), "spec": None}
        break
    return None


def given_shard(mod, tier, seed_value, n_examples, col, shrink=True):
    strat = mod.strategy(tier)

    def run_hypothesis(body, rnd):
        @hypothesis.seed(seed_value + 7919 * rnd)
        @hyp_settings(n_examples, tier, shrink=shrink)
        @given(spec=strat)
        def test(spec):
            body(spec, lambda: mod.run_case(spec))

        test()

    return _drive(run_hypothesis, col, tier)


def machine_shard(mod, name, machine_cls, tier, seed_value, n_examples, steps, col):
    """Stateful style: the machine records its operations as plain data in `self.ops` and its
    oracle results in `self.out` (an Outcome); `check_now()` is called by the machine after each
    rule through the hook installed here."""
    from hypothesis.stateful import run_state_machine_as_test

    def run_hypothesis(body, rnd):
        def hook(machine, final):
            # after every rule (final=False) only pending failures are handed over, so that a
            # violation raises at the step where it happens; at teardown (final=True) the case
            # is counted once with its labels / non-triviality flag
            spec = {"machine": name, "init": machine.init_spec, "ops": list(machine.ops)}
            if final:
                out = machine.out
                machine.out = Outcome()
                body(spec, lambda: out, True)
            elif machine.out.fails:
                out = Outcome()
                out.fails, machine.out.fails = machine.out.fails, []
                body(spec, lambda: out, False)

        machine_cls._vf_hook = staticmethod(hook)
        run_state_machine_as_test(
            hypothesis.seed(seed_value + 7919 * rnd)(machine_cls),
            settings=hyp_settings(n_examples, tier, steps=steps),
        )

    return _drive(run_hypothesis, col, tier)


# --------------------------------------------------------------------------------------------
# worker entry point (runs in a spawned process)


def shard_main(args):
    mod_name, tier, seed_value, shard, nshards = args
    sys.setrecursionlimit(10000)
    import warnings

    warnings.simplefilter("ignore")
    import numpy as np

    np.seterr(all="ignore")
    mod = importlib.import_module(mod_name)
    findings, _ = load_known(mod.ID)
    col = Collector(mod, findings)
    t0 = time.time()
    err = None
    try:
        sseed = seed_value * 1000 + shard
        if hasattr(mod, "enumerate_cases"):
            for i, spec in enumerate(mod.enumerate_cases(tier)):
                if i % nshards != shard:
                    continue
                out = mod.run_case(spec)
                for f in col.observe(spec, out, {v["bucket"] for v in col.violations}):
                    col.violations.append(
                        {"bucket": f.bucket, "msg": f.msg, "spec": spec, "data": enc(f.data)}
                    )
        total = mod.budget(tier)
        if hasattr(mod, "machines"):
            for name, cls, share, steps in mod.machines(tier):
                n = max(1, int(total * share / nshards))
                err = machine_shard(mod, name, cls, tier, sseed, n, steps, col)
                if err:
                    break
        if err is None and hasattr(mod, "strategy"):
            share = getattr(mod, "GIVEN_SHARE", 1.0)
            n = max(1, int(total * share / nshards))
            err = given_shard(mod, tier, sseed, n, col)
    except BaseException:
        err = {"harness_error": traceback.format_exc(), "spec": None}
    res = col.result()
    res["shard"] = shard
    res["wall_s"] = time.time() - t0
    res["error"] = err
    return res
